package main

/*
go2lean, eighth front end: the horizontal layout functions of ansi/ansi.go (collapse, Apply,
Indent, Pad, DumbWrap, Wrap, Snip, lineIsOnlyWhitespace), the subject of C13 and C14, into
lean/Generated/GoAnsih.lean (namespace GenAnsiH), statement by statement, as `do` blocks in
`Except Panic`.  `Props/Gen13.lean` proves every translated function equal to the hand-written
model (`Model/Ansi.lean`).

What is read from the AST (nothing is assumed about the bodies beyond the subset below):

  signatures   parameter names and types, the result type; a parameter the body assigns to is
               re-bound as a mutable local
  expand       `expand(x)` is the regular expression: an external call.  Every translated function
               that reaches it takes a parameter `expand : Str → List Go.Match`.  Its declaration is
               checked to be `r := regexp.MustCompile(<literal>); return r.FindAllStringSubmatch(text, -1)`
               and the literal is emitted as `expandPattern` (Gen13 compares it with the pattern the
               model's scanner transcribes)
  match[k]     k must be the literal 0, 1 or 2 and becomes the field `.m0` / `.m1` / `.m2`
  builders     `var b strings.Builder` is `let mut b : Str := []`, `b.WriteString(x)` is
               `b := b ++ x`, `b.String()` is `b`; a builder in any other position is rejected
  statements   var / := / = / += / -= / ++ / --, if / else if / else, `for _, x := range xs`,
               `for i := hi; i >= lo; i -= 1` (also `>` and `i--`; the body must not assign `i` nor
               anything the bound mentions) as `for i in Go.countDown hi lo`, `continue`, `break`,
               `return e`
  expressions  string and integer literals (escapes decoded and re-encoded), package-level string
               constants (emitted as definitions), + on strings and ints, - on ints, the six
               comparisons with the operator and the operand order of the source, && || ! (the right
               operand of && / || must be free of panics: Lean would evaluate it eagerly),
               len of slices, xs[i], xs[:k], xs[k:], append(xs, x), append([]string{…}, xs...),
               []string{…}, make([]string, n, c), []rune(s)[i], unicode.IsSpace(r),
               strings.Repeat / Join / Split(s, one-character literal), calls of translated functions

Types: string → Str (code points), int → Int (unbounded), bool → Bool, []string → List Str,
[][]string → List Go.Match, []string obtained from a [][]string → Go.Match, rune → Char.
`len` of a string (a byte count) and `s[i]` on a string (a byte) are rejected: the code point view
could not answer them.

Anything not understood becomes the identifier `sorry_untranslatable`, which does not exist: the
generated file does not build and the obligations of C13 and C14 fail.
*/

import (
	"fmt"
	"go/ast"
	"go/token"
	"strconv"
	"strings"
)

type h8 struct {
	b          strings.Builder
	errs       []string
	funcs      map[string]*ast.FuncDecl
	res        map[string]string
	usesExpand map[string]bool
	consts     map[string]string // package-level string constants: name -> value
	usedConsts []string

	fn    string
	vars  map[string]string
	loops int
}

func (g *h8) fail(format string, a ...any) string {
	msg := fmt.Sprintf(format, a...)
	g.errs = append(g.errs, g.fn+": "+msg)
	return "(sorry_untranslatable /- " + strings.ReplaceAll(msg, "-/", "- /") + " -/)"
}

func (g *h8) line(ind int, s string) { g.b.WriteString(strings.Repeat("  ", ind) + s + "\n") }

func h8Ident(n string) string {
	switch n {
	case "match", "prefix", "suffix", "end", "from", "at", "open", "in", "then", "fun", "show", "have", "by", "do",
		"let", "if", "else", "where", "with", "instance", "section", "namespace", "def", "theorem", "mut", "for",
		"expand", "pure", "return":
		return n + "_"
	}
	return n
}

func h8Kind(e ast.Expr) string {
	switch t := e.(type) {
	case *ast.Ident:
		switch t.Name {
		case "string", "int", "bool":
			return t.Name
		}
	case *ast.ArrayType:
		if t.Len != nil {
			return "?"
		}
		switch h8Kind(t.Elt) {
		case "string":
			return "strs"
		case "strs":
			return "matches"
		}
		if id, ok := t.Elt.(*ast.Ident); ok && id.Name == "rune" {
			return "runes"
		}
	case *ast.SelectorExpr:
		if exprString(t) == "strings.Builder" {
			return "builder"
		}
	}
	return "?"
}

func h8Lean(k string) string {
	return map[string]string{"string": "Str", "int": "Int", "bool": "Bool", "strs": "List Str",
		"matches": "List Go.Match", "match": "Go.Match", "builder": "Str", "runes": "Str", "rune": "Char"}[k]
}

func h8Zero(k string) string {
	return map[string]string{"string": "[]", "int": "0", "bool": "false", "strs": "[]", "matches": "[]", "builder": "[]"}[k]
}

func isInt(k string) bool { return k == "int" || k == "lit" }

/* translated expression and its kind */
func (g *h8) expr(e ast.Expr) (string, string) {
	bad := func() (string, string) { return g.fail("expression %s", exprFull(e)), "?" }
	switch x := e.(type) {
	case *ast.BasicLit:
		switch x.Kind {
		case token.INT:
			if _, err := strconv.ParseInt(x.Value, 10, 64); err == nil {
				return x.Value, "lit"
			}
		case token.STRING:
			if u, err := strconv.Unquote(x.Value); err == nil {
				return "(Go.str " + leanStr(u) + ")", "string"
			}
		}
	case *ast.Ident:
		switch x.Name {
		case "true", "false":
			return x.Name, "bool"
		}
		if k, ok := g.vars[x.Name]; ok {
			if k == "builder" {
				return g.fail("the builder %s used as a value", x.Name), "?"
			}
			return h8Ident(x.Name), k
		}
		if _, ok := g.consts[x.Name]; ok {
			seen := false
			for _, c := range g.usedConsts {
				seen = seen || c == x.Name
			}
			if !seen {
				g.usedConsts = append(g.usedConsts, x.Name)
			}
			return h8Ident(x.Name), "string"
		}
	case *ast.ParenExpr:
		s, k := g.expr(x.X)
		return "(" + s + ")", k
	case *ast.UnaryExpr:
		s, k := g.expr(x.X)
		switch {
		case x.Op == token.NOT && k == "bool":
			return "(!" + s + ")", "bool"
		case x.Op == token.SUB && isInt(k):
			return "(-" + s + ")", k
		}
	case *ast.BinaryExpr:
		l, lk := g.expr(x.X)
		r, rk := g.expr(x.Y)
		ints := isInt(lk) && isInt(rk)
		ik := "int"
		if lk == "lit" && rk == "lit" {
			ik = "lit"
		}
		switch x.Op {
		case token.ADD:
			if lk == "string" && rk == "string" {
				return "(" + l + " ++ " + r + ")", "string"
			}
			if ints {
				return "(" + l + " + " + r + ")", ik
			}
		case token.SUB:
			if ints {
				return "(" + l + " - " + r + ")", ik
			}
		case token.LSS, token.GTR, token.LEQ, token.GEQ:
			if ints {
				op := map[token.Token]string{token.LSS: "<", token.GTR: ">", token.LEQ: "≤", token.GEQ: "≥"}[x.Op]
				return "decide (" + l + " " + op + " " + r + ")", "bool"
			}
		case token.EQL, token.NEQ:
			if ints || (lk == rk && (lk == "string" || lk == "bool")) {
				op := map[token.Token]string{token.EQL: "=", token.NEQ: "≠"}[x.Op]
				return "decide (" + l + " " + op + " " + r + ")", "bool"
			}
		case token.LAND, token.LOR:
			if lk == "bool" && rk == "bool" {
				if strings.Contains(r, "(←") {
					return g.fail("right operand of %s can panic: %s", x.Op, exprFull(x.Y)), "?"
				}
				op := map[token.Token]string{token.LAND: "&&", token.LOR: "||"}[x.Op]
				return "(" + l + " " + op + " " + r + ")", "bool"
			}
		}
	case *ast.IndexExpr:
		base, bk := g.expr(x.X)
		switch bk {
		case "match":
			if bl, ok := x.Index.(*ast.BasicLit); ok && bl.Kind == token.INT {
				switch bl.Value {
				case "0", "1", "2":
					return base + ".m" + bl.Value, "string"
				}
			}
			return g.fail("a match is indexed by the literals 0, 1, 2 only: %s", exprFull(e)), "?"
		case "matches", "strs", "runes":
			i, ik := g.expr(x.Index)
			if isInt(ik) {
				return "(← Go.index " + base + " " + i + ")", map[string]string{"matches": "match", "strs": "string", "runes": "rune"}[bk]
			}
		}
	case *ast.SliceExpr:
		base, bk := g.expr(x.X)
		if x.Max != nil || x.Slice3 || (bk != "matches" && bk != "strs") {
			break
		}
		switch {
		case x.Low == nil && x.High != nil:
			h, hk := g.expr(x.High)
			if isInt(hk) {
				return "(← Go.sliceTo " + base + " " + h + ")", bk
			}
		case x.Low != nil && x.High == nil:
			l, lk := g.expr(x.Low)
			if isInt(lk) {
				return "(← Go.sliceFrom " + base + " " + l + ")", bk
			}
		}
	case *ast.CompositeLit:
		if h8Kind(x.Type) == "strs" {
			els := []string{}
			for _, el := range x.Elts {
				s, k := g.expr(el)
				if k != "string" {
					return bad()
				}
				els = append(els, s)
			}
			return "[" + strings.Join(els, ", ") + "]", "strs"
		}
	case *ast.CallExpr:
		return g.call(x)
	}
	return bad()
}

func (g *h8) call(x *ast.CallExpr) (string, string) {
	bad := func() (string, string) { return g.fail("call %s", exprFull(x)), "?" }
	args := make([]string, len(x.Args))
	kinds := make([]string, len(x.Args))
	evalArgs := func() {
		for i, a := range x.Args {
			args[i], kinds[i] = g.expr(a)
		}
	}
	want := func(ks ...string) bool {
		if len(ks) != len(kinds) || x.Ellipsis != token.NoPos {
			return false
		}
		for i, k := range ks {
			if kinds[i] != k && !(k == "int" && kinds[i] == "lit") {
				return false
			}
		}
		return true
	}
	switch fn := x.Fun.(type) {
	case *ast.ArrayType:
		/* []rune(s): the same code points */
		evalArgs()
		if h8Kind(fn) == "runes" && want("string") {
			return args[0], "runes"
		}
	case *ast.Ident:
		switch fn.Name {
		case "len":
			evalArgs()
			if len(args) == 1 && (kinds[0] == "matches" || kinds[0] == "strs" || kinds[0] == "runes") {
				return "(Go.len " + args[0] + ")", "int"
			}
			return bad()
		case "append":
			evalArgs()
			if len(args) == 2 && kinds[0] == "strs" {
				if x.Ellipsis == token.NoPos && kinds[1] == "string" {
					return "(" + args[0] + " ++ [" + args[1] + "])", "strs"
				}
				if x.Ellipsis != token.NoPos && kinds[1] == "strs" {
					return "(" + args[0] + " ++ " + args[1] + ")", "strs"
				}
			}
			return bad()
		case "make":
			if len(x.Args) == 3 && h8Kind(x.Args[0]) == "strs" {
				n, nk := g.expr(x.Args[1])
				c, ck := g.expr(x.Args[2])
				if isInt(nk) && isInt(ck) {
					return "(← Go.makeCap (α := Str) " + n + " " + c + ")", "strs"
				}
			}
			return bad()
		case "expand":
			if _, translated := g.funcs["expand"]; !translated {
				evalArgs()
				if want("string") {
					return "(expand " + args[0] + ")", "matches"
				}
			}
			return bad()
		}
		if _, ok := g.funcs[fn.Name]; ok {
			evalArgs()
			fd := g.funcs[fn.Name]
			ks := []string{}
			for _, p := range fd.Type.Params.List {
				for range p.Names {
					ks = append(ks, h8Kind(p.Type))
				}
			}
			if !want(ks...) {
				return bad()
			}
			as := args
			if g.usesExpand[fn.Name] {
				as = append([]string{"expand"}, args...)
			}
			return "(← " + fn.Name + " " + strings.Join(as, " ") + ")", g.res[fn.Name]
		}
	case *ast.SelectorExpr:
		id, ok := fn.X.(*ast.Ident)
		if !ok {
			break
		}
		if g.vars[id.Name] == "builder" {
			/* b.String() */
			if fn.Sel.Name == "String" && len(x.Args) == 0 {
				return h8Ident(id.Name), "string"
			}
			return g.fail("builder method %s in an expression", fn.Sel.Name), "?"
		}
		if _, local := g.vars[id.Name]; local {
			break
		}
		evalArgs()
		switch exprString(fn) {
		case "unicode.IsSpace":
			if want("rune") {
				return "(Uni.isSpace " + args[0] + ")", "bool"
			}
		case "strings.Repeat":
			if want("string", "int") {
				return "(← Go.Strings.repeat " + args[0] + " " + args[1] + ")", "string"
			}
		case "strings.Join":
			if want("strs", "string") {
				return "(Go.Strings.join " + args[0] + " " + args[1] + ")", "string"
			}
		case "strings.Split":
			if want("string", "string") {
				if bl, ok := x.Args[1].(*ast.BasicLit); ok {
					if u, err := strconv.Unquote(bl.Value); err == nil && len([]rune(u)) == 1 {
						return fmt.Sprintf("(Go.Strings.splitChar %s (Char.ofNat %d))", args[0], []rune(u)[0]), "strs"
					}
				}
			}
		}
	}
	return bad()
}

func (g *h8) boolExpr(e ast.Expr) string {
	s, k := g.expr(e)
	if k != "bool" {
		return g.fail("condition %s is not a bool", exprFull(e))
	}
	return s
}

func (g *h8) block(ind int, list []ast.Stmt) {
	if len(list) == 0 {
		g.line(ind, "pure ()")
	}
	for _, st := range list {
		g.stmt(ind, st)
	}
}

func (g *h8) declare(ind int, name, kind, value string) {
	if _, dup := g.vars[name]; dup {
		/* Lean does not let a mutable variable be shadowed; Go does */
		g.line(ind, g.fail("%s declared twice in one function (shadowing)", name))
		return
	}
	if kind == "lit" {
		kind = "int"
	}
	if h8Lean(kind) == "" {
		g.line(ind, g.fail("declaration of %s: type not understood", name))
		return
	}
	g.vars[name] = kind
	g.line(ind, "let mut "+h8Ident(name)+" : "+h8Lean(kind)+" := "+value)
}

/* variables declared in a nested block go out of scope with it */
func (g *h8) scoped(f func()) {
	saved := map[string]string{}
	for k, v := range g.vars {
		saved[k] = v
	}
	f()
	g.vars = saved
}

func (g *h8) stmt(ind int, st ast.Stmt) {
	switch s := st.(type) {
	case *ast.BlockStmt:
		g.scoped(func() { g.block(ind, s.List) })
	case *ast.EmptyStmt:
	case *ast.ReturnStmt:
		if len(s.Results) != 1 {
			g.line(ind, g.fail("return arity"))
			return
		}
		v, k := g.expr(s.Results[0])
		if k != g.res[g.fn] && !(k == "lit" && g.res[g.fn] == "int") {
			v = g.fail("return of a %s from a function returning %s", k, g.res[g.fn])
		}
		g.line(ind, "return "+v)
	case *ast.BranchStmt:
		if s.Label != nil || g.loops == 0 {
			g.line(ind, g.fail("branch statement %s", s.Tok))
			return
		}
		switch s.Tok {
		case token.CONTINUE:
			g.line(ind, "continue")
		case token.BREAK:
			g.line(ind, "break")
		default:
			g.line(ind, g.fail("branch statement %s", s.Tok))
		}
	case *ast.IfStmt:
		if s.Init != nil {
			g.line(ind, g.fail("if with init"))
			return
		}
		g.line(ind, "if "+g.boolExpr(s.Cond)+" then")
		g.scoped(func() { g.block(ind+1, s.Body.List) })
		if s.Else != nil {
			g.line(ind, "else")
			switch e := s.Else.(type) {
			case *ast.BlockStmt:
				g.scoped(func() { g.block(ind+1, e.List) })
			default:
				g.stmt(ind+1, e)
			}
		}
	case *ast.ExprStmt:
		/* b.WriteString(x) */
		if call, ok := s.X.(*ast.CallExpr); ok {
			if se, ok := call.Fun.(*ast.SelectorExpr); ok {
				if id, ok := se.X.(*ast.Ident); ok && g.vars[id.Name] == "builder" && se.Sel.Name == "WriteString" && len(call.Args) == 1 {
					v, k := g.expr(call.Args[0])
					if k == "string" {
						g.line(ind, h8Ident(id.Name)+" := "+h8Ident(id.Name)+" ++ "+v)
						return
					}
				}
			}
		}
		g.line(ind, g.fail("expression statement %s", exprFull(s.X)))
	case *ast.DeclStmt:
		gd, ok := s.Decl.(*ast.GenDecl)
		if !ok || gd.Tok != token.VAR {
			g.line(ind, g.fail("declaration"))
			return
		}
		for _, sp := range gd.Specs {
			vs := sp.(*ast.ValueSpec)
			switch {
			case vs.Type != nil && len(vs.Values) == 0:
				k := h8Kind(vs.Type)
				if h8Zero(k) == "" {
					g.line(ind, g.fail("zero value of %s", exprString(vs.Type)))
					continue
				}
				for _, n := range vs.Names {
					g.declare(ind, n.Name, k, h8Zero(k))
				}
			case len(vs.Values) == len(vs.Names):
				for i, n := range vs.Names {
					v, k := g.expr(vs.Values[i])
					if vs.Type != nil && h8Kind(vs.Type) != k && !(k == "lit" && h8Kind(vs.Type) == "int") {
						v = g.fail("initialiser of %s", n.Name)
					}
					g.declare(ind, n.Name, k, v)
				}
			default:
				g.line(ind, g.fail("declaration"))
			}
		}
	case *ast.IncDecStmt:
		id, ok := s.X.(*ast.Ident)
		if !ok || g.vars[id.Name] != "int" {
			g.line(ind, g.fail("++/-- on %s", exprFull(s.X)))
			return
		}
		op := "+"
		if s.Tok == token.DEC {
			op = "-"
		}
		g.line(ind, h8Ident(id.Name)+" := ("+h8Ident(id.Name)+" "+op+" 1)")
	case *ast.AssignStmt:
		if len(s.Lhs) != 1 || len(s.Rhs) != 1 {
			g.line(ind, g.fail("multiple assignment"))
			return
		}
		id, ok := s.Lhs[0].(*ast.Ident)
		if !ok {
			g.line(ind, g.fail("assignment target %s", exprFull(s.Lhs[0])))
			return
		}
		v, k := g.expr(s.Rhs[0])
		name := h8Ident(id.Name)
		if s.Tok == token.DEFINE {
			g.declare(ind, id.Name, k, v)
			return
		}
		vk, known := g.vars[id.Name]
		if !known || vk == "builder" || vk == "loopvar" {
			g.line(ind, g.fail("assignment to %s", id.Name))
			return
		}
		same := vk == k || (vk == "int" && k == "lit")
		switch {
		case s.Tok == token.ASSIGN && same:
			g.line(ind, name+" := "+v)
		case s.Tok == token.ADD_ASSIGN && same && vk == "string":
			g.line(ind, name+" := ("+name+" ++ "+v+")")
		case s.Tok == token.ADD_ASSIGN && same && vk == "int":
			g.line(ind, name+" := ("+name+" + "+v+")")
		case s.Tok == token.SUB_ASSIGN && same && vk == "int":
			g.line(ind, name+" := ("+name+" - "+v+")")
		default:
			g.line(ind, g.fail("assignment %s %s %s", id.Name, s.Tok, exprFull(s.Rhs[0])))
		}
	case *ast.RangeStmt:
		g.rangeLoop(ind, s)
	case *ast.ForStmt:
		g.countDown(ind, s)
	default:
		g.line(ind, g.fail("statement %T", st))
	}
}

/* `for _, x := range xs` */
func (g *h8) rangeLoop(ind int, s *ast.RangeStmt) {
	if k, ok := s.Key.(*ast.Ident); !ok || k.Name != "_" || s.Tok != token.DEFINE {
		g.line(ind, g.fail("range form (only `for _, x := range xs`)"))
		return
	}
	v, ok := s.Value.(*ast.Ident)
	if !ok || v.Name == "_" {
		g.line(ind, g.fail("range form (only `for _, x := range xs`)"))
		return
	}
	xs, k := g.expr(s.X)
	ek := map[string]string{"matches": "match", "strs": "string"}[k]
	if ek == "" || strings.Contains(xs, "(←") {
		g.line(ind, g.fail("range over %s", exprFull(s.X)))
		return
	}
	if _, dup := g.vars[v.Name]; dup {
		g.line(ind, g.fail("%s declared twice in one function (shadowing)", v.Name))
		return
	}
	/* Go evaluates the range expression once; the list value cannot change under the loop, but a
	   reassignment of the variable inside the body would be invisible to Go and to Lean alike */
	if assigned := h8Assigned(s.Body); assigned[v.Name] {
		g.line(ind, g.fail("the body assigns the range variable %s", v.Name))
		return
	}
	g.line(ind, "for "+h8Ident(v.Name)+" in "+xs+" do")
	g.scoped(func() {
		g.vars[v.Name] = ek
		g.loops++
		g.block(ind+1, s.Body.List)
		g.loops--
	})
}

/* `for i := hi; i >= lo; i -= 1` */
func (g *h8) countDown(ind int, s *ast.ForStmt) {
	bad := func(why string) { g.line(ind, g.fail("for loop: %s", why)) }
	init, ok := s.Init.(*ast.AssignStmt)
	if !ok || init.Tok != token.DEFINE || len(init.Lhs) != 1 || len(init.Rhs) != 1 {
		bad("init statement")
		return
	}
	iv, ok := init.Lhs[0].(*ast.Ident)
	if !ok {
		bad("init statement")
		return
	}
	if _, dup := g.vars[iv.Name]; dup {
		bad("the counter shadows " + iv.Name)
		return
	}
	hi, hk := g.expr(init.Rhs[0])
	if !isInt(hk) {
		bad("the counter is not an int")
		return
	}
	cond, ok := s.Cond.(*ast.BinaryExpr)
	if !ok || !isIdent(cond.X, iv.Name) || (cond.Op != token.GEQ && cond.Op != token.GTR) {
		bad("condition (only `i >= lo` and `i > lo`)")
		return
	}
	lo, lk := g.expr(cond.Y)
	if !isInt(lk) {
		bad("the bound is not an int")
		return
	}
	if cond.Op == token.GTR {
		lo = "(" + lo + " + 1)"
	}
	step := false
	switch p := s.Post.(type) {
	case *ast.IncDecStmt:
		step = p.Tok == token.DEC && isIdent(p.X, iv.Name)
	case *ast.AssignStmt:
		if p.Tok == token.SUB_ASSIGN && len(p.Lhs) == 1 && len(p.Rhs) == 1 && isIdent(p.Lhs[0], iv.Name) {
			if bl, ok := p.Rhs[0].(*ast.BasicLit); ok && bl.Kind == token.INT && bl.Value == "1" {
				step = true
			}
		}
	}
	if !step {
		bad("post statement (only `i -= 1` and `i--`)")
		return
	}
	if strings.Contains(hi, "(←") || strings.Contains(lo, "(←") {
		bad("bound that can panic")
		return
	}
	changed := h8Assigned(s.Body)
	if changed[iv.Name] {
		bad("the body changes the counter")
		return
	}
	for name := range changed {
		if mentionsIdent(cond.Y, name) {
			bad("the body changes " + name + ", which the bound mentions")
			return
		}
	}
	g.line(ind, "for "+h8Ident(iv.Name)+" in Go.countDown "+hi+" "+lo+" do")
	g.scoped(func() {
		g.vars[iv.Name] = "int"
		g.loops++
		g.block(ind+1, s.Body.List)
		g.loops--
	})
}

/* names assigned (=, op=, ++, --) anywhere in the node */
func h8Assigned(n ast.Node) map[string]bool {
	out := map[string]bool{}
	ast.Inspect(n, func(q ast.Node) bool {
		switch s := q.(type) {
		case *ast.AssignStmt:
			if s.Tok != token.DEFINE {
				for _, l := range s.Lhs {
					if id, ok := l.(*ast.Ident); ok {
						out[id.Name] = true
					}
				}
			}
		case *ast.IncDecStmt:
			if id, ok := s.X.(*ast.Ident); ok {
				out[id.Name] = true
			}
		}
		return true
	})
	return out
}

func (g *h8) function(fd *ast.FuncDecl) {
	g.fn = fd.Name.Name
	g.vars = map[string]string{}
	g.loops = 0
	assigned := h8Assigned(fd.Body)
	params := []string{}
	if g.usesExpand[g.fn] {
		params = append(params, "(expand : Str → List Go.Match)")
	}
	rebind := []string{}
	for _, p := range fd.Type.Params.List {
		k := h8Kind(p.Type)
		t := h8Lean(k)
		if t == "" || k == "builder" {
			t = g.fail("parameter type %s", exprString(p.Type))
		}
		for _, n := range p.Names {
			g.vars[n.Name] = k
			if assigned[n.Name] {
				params = append(params, "("+h8Ident(n.Name)+"0 : "+t+")")
				rebind = append(rebind, "let mut "+h8Ident(n.Name)+" : "+t+" := "+h8Ident(n.Name)+"0")
			} else {
				params = append(params, "("+h8Ident(n.Name)+" : "+t+")")
			}
		}
	}
	rt := h8Lean(g.res[g.fn])
	if rt == "" {
		rt = g.fail("result type")
	}
	g.line(0, fmt.Sprintf("def %s %s : Except Panic %s := do", g.fn, strings.Join(params, " "), paren(rt)))
	for _, r := range rebind {
		g.line(1, r)
	}
	g.block(1, fd.Body.List)
	g.line(0, "")
}

/* `expand` must be the regular expression and nothing else */
func (g *h8) expandPattern(f *ast.File) string {
	for _, d := range f.Decls {
		fd, ok := d.(*ast.FuncDecl)
		if !ok || fd.Recv != nil || fd.Name.Name != "expand" {
			continue
		}
		g.fn = "expand"
		ps := fd.Type.Params.List
		if len(ps) != 1 || len(ps[0].Names) != 1 || h8Kind(ps[0].Type) != "string" ||
			fd.Type.Results == nil || len(fd.Type.Results.List) != 1 || h8Kind(fd.Type.Results.List[0].Type) != "matches" {
			return g.fail("signature of expand")
		}
		arg := ps[0].Names[0].Name
		if len(fd.Body.List) != 2 {
			return g.fail("body of expand")
		}
		as, ok := fd.Body.List[0].(*ast.AssignStmt)
		if !ok || as.Tok != token.DEFINE || len(as.Lhs) != 1 || len(as.Rhs) != 1 {
			return g.fail("body of expand")
		}
		re, ok := as.Lhs[0].(*ast.Ident)
		ce, ok2 := as.Rhs[0].(*ast.CallExpr)
		if !ok || !ok2 || exprString(ce.Fun) != "regexp.MustCompile" || len(ce.Args) != 1 {
			return g.fail("body of expand")
		}
		bl, ok := ce.Args[0].(*ast.BasicLit)
		if !ok || bl.Kind != token.STRING {
			return g.fail("pattern of expand")
		}
		pat, err := strconv.Unquote(bl.Value)
		if err != nil {
			return g.fail("pattern of expand")
		}
		rs, ok := fd.Body.List[1].(*ast.ReturnStmt)
		if !ok || len(rs.Results) != 1 {
			return g.fail("body of expand")
		}
		rc, ok := rs.Results[0].(*ast.CallExpr)
		if !ok || exprString(rc.Fun) != re.Name+".FindAllStringSubmatch" || len(rc.Args) != 2 || !isIdent(rc.Args[0], arg) {
			return g.fail("body of expand")
		}
		if u, ok := rc.Args[1].(*ast.UnaryExpr); !ok || u.Op != token.SUB || exprFull(u.X) != "1" {
			return g.fail("expand does not ask for all matches")
		}
		return leanStr(pat)
	}
	g.fn = "expand"
	return g.fail("expand not found")
}

func translateAnsiH(f *ast.File, names []string, ns string) (string, []string) {
	g := &h8{funcs: map[string]*ast.FuncDecl{}, res: map[string]string{}, usesExpand: map[string]bool{}, consts: map[string]string{}}
	for _, d := range f.Decls {
		switch x := d.(type) {
		case *ast.FuncDecl:
			if x.Recv != nil {
				continue
			}
			for _, n := range names {
				if x.Name.Name == n {
					g.funcs[n] = x
					if x.Type.Results != nil && len(x.Type.Results.List) == 1 && len(x.Type.Results.List[0].Names) == 0 {
						g.res[n] = h8Kind(x.Type.Results.List[0].Type)
					}
				}
			}
		case *ast.GenDecl:
			if x.Tok != token.CONST {
				continue
			}
			for _, sp := range x.Specs {
				vs := sp.(*ast.ValueSpec)
				for i, n := range vs.Names {
					if i < len(vs.Values) {
						if bl, ok := vs.Values[i].(*ast.BasicLit); ok && bl.Kind == token.STRING {
							if u, err := strconv.Unquote(bl.Value); err == nil {
								g.consts[n.Name] = u
							}
						}
					}
				}
			}
		}
	}
	/* who reaches expand: fixpoint over the calls among the translated functions */
	calls := func(fd *ast.FuncDecl, name string) bool {
		found := false
		ast.Inspect(fd.Body, func(n ast.Node) bool {
			if ce, ok := n.(*ast.CallExpr); ok && isIdent(ce.Fun, name) {
				found = true
			}
			return true
		})
		return found
	}
	for changed := true; changed; {
		changed = false
		for n, fd := range g.funcs {
			if g.usesExpand[n] {
				continue
			}
			uses := calls(fd, "expand")
			for m := range g.funcs {
				uses = uses || (g.usesExpand[m] && calls(fd, m))
			}
			if uses {
				g.usesExpand[n], changed = true, true
			}
		}
	}
	/* bodies first (they decide which constants are used), callees before callers */
	emitted := map[string]bool{}
	var visit func(n string)
	visit = func(n string) {
		fd, ok := g.funcs[n]
		if !ok {
			g.fn = n
			g.line(0, "-- "+g.fail("function %s not found", n))
			return
		}
		if emitted[n] {
			return
		}
		emitted[n] = true
		for _, m := range names {
			if _, ok := g.funcs[m]; ok && m != n && calls(fd, m) && !emitted[m] {
				visit(m)
			}
		}
		g.function(fd)
	}
	for _, n := range names {
		visit(n)
	}
	bodies := g.b.String()
	g.b.Reset()
	g.line(0, "namespace "+ns)
	g.line(0, "")
	g.line(0, "/-- the pattern `expand` compiles; it asks for all matches of it -/")
	g.line(0, "def expandPattern : String := "+g.expandPattern(f))
	g.line(0, "")
	for _, c := range g.usedConsts {
		g.line(0, "/-- `const "+c+"` -/")
		g.line(0, "def "+h8Ident(c)+" : Str := (Go.str "+leanStr(g.consts[c])+")")
		g.line(0, "")
	}
	g.b.WriteString(bodies)
	g.line(0, "end "+ns)
	return g.b.String(), g.errs
}
