package main

/*
go2lean, ninth front end: the response-reading functions of jtp/jtp.go — `parseStatusLine`,
`parseContentType`, `parseLocation`, `validateHeaders`, `findLocation`, and the statements of `Get`
that follow `buf := bufio.NewReader(connection)` (what a response means: `Get_response`).

  the reader   a `*bufio.Reader` is the input not yet read, a `Str`, threaded through: a function
               with such a parameter takes the remaining input and returns, next to its values, what
               is left of it (`validateHeaders : … → Except Go.Fail Str`).  `buf.ReadString('\n')`
               is the field `readString` of the parameter `W : Ext …` (a line and the rest, or
               `none` = an error); only the delimiter '\n' is accepted.  What is left of the reader
               on an error path is not carried: every error path returns at once.
  externals    the other fields of `W`: one per package-level `regexp.MustCompile` variable whose
               `FindStringSubmatch` is called (an `Option (List Str)`, `none` = nil; `Go.submatch`
               turns nil into the empty slice), `mime.Parse`, `(*MediaType).Matches`, `url.Parse`,
               `(*URL).ResolveReference`, `json.NewDecoder(buf).Decode(&v)` on the rest of the
               input, and whether `connection.Close()` fails where its result is tested.  The
               generated `structure Ext` lists exactly the externals the source uses.
  results      `(…, error)` -> `Except Go.Fail (…)`: `.error .err` = a non-nil error (the model keeps
               no more than that), `.error (.panic p)` = a run-time panic (`s[i]` out of range, a
               method or field through a nil pointer).  A returned error must be visibly non-nil
               (`errors.New`, `fmt.Errorf`, `errors.Join` with such an operand, or a variable
               inside the branch where it was tested `!= nil`); its message is not kept, but the
               panics its operands can raise are.
  pointers     a `*T` local or result is an `Option T` (`nil` = `none`); parameters are taken to be
               non-nil.  `p.M(…)`, `p.F` on a local go through a nil test.
  statements   continuation style (every statement consumes the rest of its block, no joins):
               `:=`, `=`, `v, err := call` + `if err != nil { … return }`, `if`/`else`, `return`,
               `if err := connection.Close(); err != nil { … }`, `cache.Add(key, bundle{…})`
               (recorded in the reply), `var v map[string]any` + `err = json.NewDecoder(buf).Decode(&v)`,
               `return Get(l, accept, tolerated, n)` (a reply `again l n`; `accept`, `tolerated` must
               be passed on unchanged),
               `for { … }` at the top level of a function -> a recursive definition `F_loop` whose
               parameters are the variables the body and the statements after the loop use;
               `continue` and the end of the body are the recursive call, `break` is the statements
               after the loop.  Termination is structural in the reader: every iteration must read
               one line with `ReadString` before it goes round, and `W.readString_shorter` says the
               rest is shorter than the input (`termination_by buf.length`); no fuel.

Everything outside this makes the translator emit `sorry_untranslatable`, an unknown identifier
that also contains a forbidden word: the generated file no longer builds.
*/

import (
	"fmt"
	"go/ast"
	"go/token"
	"strconv"
	"strings"
)

type jtHoist struct{ kind, v, arg string }

type jtLoop struct {
	name  string
	vars  []string
	after []ast.Stmt
}

type jtScope struct {
	order     []string
	types     map[string]string // Go variable -> Go type
	nonNil    map[string]bool   // pointer parameters / errors known to be non-nil
	buf       string            // Go name of the reader variable ("" if none)
	bufLean   string            // its current Lean name
	bufN      int
	readHyp   bool // the current reader state came from one ReadString on the loop's `buf`
	loop      *jtLoop
	top       bool // at the top level of the function body
	undecoded map[string]bool
}

func (s *jtScope) clone() *jtScope {
	c := *s
	c.order = append([]string{}, s.order...)
	c.types = map[string]string{}
	c.nonNil = map[string]bool{}
	c.undecoded = map[string]bool{}
	for k, v := range s.types {
		c.types[k] = v
	}
	for k, v := range s.nonNil {
		c.nonNil[k] = v
	}
	for k, v := range s.undecoded {
		c.undecoded[k] = v
	}
	return &c
}

func (s *jtScope) declare(name, typ string) {
	if name == "_" {
		return
	}
	if _, ok := s.types[name]; !ok {
		s.order = append(s.order, name)
	}
	s.types[name] = typ
	delete(s.nonNil, name)
}

type jtCont func(ind int, sc *jtScope)

type jt struct {
	b         *strings.Builder
	pre       []string // loop definitions of the function being translated
	errs      []string
	file      *ast.File
	funcs     map[string]*ast.FuncDecl
	regexVars []string
	regexUsed map[string]bool
	extUsed   map[string]bool
	bundle    [][2]string // field name, Go type
	hasCache  bool
	cur       string
	fresh     int
	getParams []string
	getTypes  []string
}

func (g *jt) fail(format string, a ...any) string {
	msg := fmt.Sprintf(format, a...)
	g.errs = append(g.errs, g.cur+": "+msg)
	return "(sorry_untranslatable /- " + strings.ReplaceAll(msg, "-/", "- /") + " -/)"
}

func (g *jt) line(ind int, s string) { g.b.WriteString(strings.Repeat("  ", ind) + s + "\n") }

const jtTVars = "Url MT Doc"

/* ---------- types ---------- */

func (g *jt) leanType(t string) string {
	switch t {
	case "string":
		return "Str"
	case "bool":
		return "Bool"
	case "uint":
		return "Nat"
	case "int":
		return "Int"
	case "[]string":
		return "List Str"
	case "*bufio.Reader":
		return "Str"
	case "*url.URL":
		return "Option Url"
	case "&url.URL":
		return "Url"
	case "*mime.MediaType":
		return "Option MT"
	case "map[string]any":
		return "Doc"
	}
	return g.fail("type %s", t)
}

func jtResults(fd *ast.FuncDecl) (types []string, names []string) {
	if fd.Type.Results == nil {
		return
	}
	for _, r := range fd.Type.Results.List {
		if len(r.Names) == 0 {
			types = append(types, typeString(r.Type))
			names = append(names, "")
		}
		for _, n := range r.Names {
			types = append(types, typeString(r.Type))
			names = append(names, n.Name)
		}
	}
	return
}

func jtBufParam(fd *ast.FuncDecl) string {
	for _, p := range fd.Type.Params.List {
		if typeString(p.Type) == "*bufio.Reader" {
			if len(p.Names) == 1 {
				return p.Names[0].Name
			}
		}
	}
	return ""
}

/* the Lean type of what `fd` returns besides failing */
func (g *jt) okType(fd *ast.FuncDecl) string {
	if fd.Name.Name == "Get" {
		return "(Reply Url Doc)"
	}
	ts, _ := jtResults(fd)
	if len(ts) == 0 || ts[len(ts)-1] != "error" {
		return g.fail("result list of %s (the last result must be an error)", fd.Name.Name)
	}
	parts := []string{}
	for _, t := range ts[:len(ts)-1] {
		parts = append(parts, g.leanType(t))
	}
	if jtBufParam(fd) != "" {
		parts = append(parts, "Str")
	}
	switch len(parts) {
	case 0:
		return "Unit"
	case 1:
		return parenT(parts[0])
	}
	return "(" + strings.Join(parts, " × ") + ")"
}

/* ---------- hoisted operations that can panic ---------- */

func (g *jt) hoist(hs *[]jtHoist, kind, arg string) string {
	g.fresh++
	v := fmt.Sprintf("x%d_", g.fresh)
	*hs = append(*hs, jtHoist{kind, v, arg})
	return v
}

func (g *jt) flush(ind int, hs []jtHoist) int {
	for _, h := range hs {
		switch h.kind {
		case "index":
			g.line(ind, "match "+h.arg+" with")
			g.line(ind, "| .error p_ => .error (.panic p_)")
			g.line(ind, "| .ok "+h.v+" =>")
		case "deref":
			g.line(ind, "match "+h.arg+" with")
			g.line(ind, "| none => .error (.panic .nilDeref)")
			g.line(ind, "| some "+h.v+" =>")
		}
		ind++
	}
	return ind
}

/* ---------- expressions ---------- */

func (g *jt) name(sc *jtScope, n string) string {
	if n == sc.buf && sc.buf != "" {
		return sc.bufLean
	}
	return lkIdent(n)
}

/* a pointer-typed expression as the value it points to */
func (g *jt) value(s, t string, hs *[]jtHoist) (string, string) {
	if strings.HasPrefix(t, "*") {
		return g.hoist(hs, "deref", s), "&" + t[1:]
	}
	return s, t
}

/* a pointer-typed expression as an `Option` */
func (g *jt) option(s, t string) (string, string) {
	if strings.HasPrefix(t, "&") {
		return "(some " + s + ")", "*" + t[1:]
	}
	return s, t
}

func (g *jt) expr(sc *jtScope, e ast.Expr, hs *[]jtHoist) (string, string) {
	switch x := e.(type) {
	case *ast.ParenExpr:
		return g.expr(sc, x.X, hs)
	case *ast.Ident:
		switch x.Name {
		case "true", "false":
			return x.Name, "bool"
		case "nil":
			return "none", "nil"
		}
		if t, ok := sc.types[x.Name]; ok {
			if sc.undecoded[x.Name] {
				return g.fail("%s read before anything was decoded into it", x.Name), "?"
			}
			if t == "error" || t == "conn" || t == "passed-on" {
				return g.fail("%s used as a value", x.Name), "?"
			}
			if strings.HasPrefix(t, "*") && sc.nonNil[x.Name] && t != "*bufio.Reader" {
				t = "&" + t[1:]
			}
			return g.name(sc, x.Name), t
		}
		return g.fail("identifier %s", x.Name), "?"
	case *ast.BasicLit:
		switch x.Kind {
		case token.STRING:
			s, err := strconv.Unquote(x.Value)
			if err != nil {
				return g.fail("string literal %s", x.Value), "?"
			}
			return "(Go.str " + leanStr(s) + ")", "string"
		case token.INT:
			if _, err := strconv.ParseUint(x.Value, 10, 64); err == nil {
				return x.Value, "int-literal"
			}
		}
		return g.fail("literal %s", x.Value), "?"
	case *ast.UnaryExpr:
		if x.Op == token.NOT {
			s, t := g.expr(sc, x.X, hs)
			if t == "bool" {
				return "(!" + s + ")", "bool"
			}
		}
		return g.fail("expression %s", exprString(e)), "?"
	case *ast.BinaryExpr:
		return g.binary(sc, x, hs)
	case *ast.IndexExpr:
		s, t := g.expr(sc, x.X, hs)
		i, it := g.expr(sc, x.Index, hs)
		if t == "[]string" && it == "int-literal" {
			return g.hoist(hs, "index", "Go.index "+s+" "+i), "string"
		}
		return g.fail("index expression %s", exprString(e)), "?"
	case *ast.CallExpr:
		return g.call(sc, x, hs)
	}
	return g.fail("expression %s", exprString(e)), "?"
}

func jtNumeric(t string) bool { return t == "int" || t == "uint" || t == "int-literal" }

func (g *jt) binary(sc *jtScope, x *ast.BinaryExpr, hs *[]jtHoist) (string, string) {
	l, lt := g.expr(sc, x.X, hs)
	before := len(*hs)
	r, rt := g.expr(sc, x.Y, hs)
	num := jtNumeric(lt) && jtNumeric(rt) && (lt == rt || lt == "int-literal" || rt == "int-literal") && !(lt == "int-literal" && rt == "int-literal")
	switch x.Op {
	case token.LOR, token.LAND:
		if len(*hs) != before {
			return g.fail("an operation that can panic on the right of %s (evaluated only sometimes)", x.Op), "?"
		}
		if lt == "bool" && rt == "bool" {
			op := map[token.Token]string{token.LOR: "||", token.LAND: "&&"}[x.Op]
			return "(" + l + " " + op + " " + r + ")", "bool"
		}
	case token.EQL, token.NEQ:
		op := map[token.Token]string{token.EQL: "=", token.NEQ: "≠"}[x.Op]
		if num || (lt == rt && (lt == "string" || lt == "bool")) {
			return "decide (" + l + " " + op + " " + r + ")", "bool"
		}
	case token.LSS, token.GTR, token.LEQ, token.GEQ:
		op := map[token.Token]string{token.LSS: "<", token.GTR: ">", token.LEQ: "≤", token.GEQ: "≥"}[x.Op]
		if num {
			return "decide (" + l + " " + op + " " + r + ")", "bool"
		}
	case token.SUB:
		if num && (lt == "uint" || rt == "uint") {
			return "(Go.usub " + l + " " + r + ")", "uint"
		}
	}
	return g.fail("expression %s (%s %s %s)", exprString(x), lt, x.Op, rt), "?"
}

func (g *jt) call(sc *jtScope, x *ast.CallExpr, hs *[]jtHoist) (string, string) {
	fn := exprString(x.Fun)
	switch fn {
	case "len":
		if len(x.Args) == 1 {
			s, t := g.expr(sc, x.Args[0], hs)
			if t == "[]string" {
				return "(Go.len " + s + ")", "int"
			}
		}
		return g.fail("call %s", exprString(x)), "?"
	case "strings.HasPrefix":
		if len(x.Args) == 2 {
			s, st := g.expr(sc, x.Args[0], hs)
			p, pt := g.expr(sc, x.Args[1], hs)
			if st == "string" && pt == "string" {
				return "(Str.hasPrefix " + p + " " + s + ")", "bool"
			}
		}
		return g.fail("call %s", exprString(x)), "?"
	}
	if se, ok := x.Fun.(*ast.SelectorExpr); ok {
		if id, ok := se.X.(*ast.Ident); ok {
			/* R.FindStringSubmatch(s) on a compiled package-level regular expression */
			if se.Sel.Name == "FindStringSubmatch" && len(x.Args) == 1 {
				for _, r := range g.regexVars {
					if r == id.Name {
						if _, shadowed := sc.types[id.Name]; shadowed {
							break
						}
						s, st := g.expr(sc, x.Args[0], hs)
						if st != "string" {
							break
						}
						g.regexUsed[r] = true
						return "(Go.submatch (W." + lkIdent(r) + " " + s + "))", "[]string"
					}
				}
				return g.fail("call %s", exprString(x)), "?"
			}
			rt, isVar := sc.types[id.Name]
			if isVar && (rt == "*mime.MediaType") && se.Sel.Name == "Matches" && len(x.Args) == 1 {
				r, rt2 := g.expr(sc, se.X, hs)
				r, _ = g.value(r, rt2, hs)
				a, at := g.expr(sc, x.Args[0], hs)
				if at == "[]string" {
					g.extUsed["mediaTypeMatches"] = true
					return "(W.mediaTypeMatches " + r + " " + a + ")", "bool"
				}
			}
			if isVar && rt == "*url.URL" && se.Sel.Name == "ResolveReference" && len(x.Args) == 1 {
				r, rt2 := g.expr(sc, se.X, hs)
				r, _ = g.value(r, rt2, hs)
				a, at := g.expr(sc, x.Args[0], hs)
				if at == "*url.URL" || at == "&url.URL" {
					a, _ = g.value(a, at, hs)
					g.extUsed["resolveReference"] = true
					return "(W.resolveReference " + r + " " + a + ")", "&url.URL"
				}
			}
		}
	}
	return g.fail("call %s", exprString(x)), "?"
}

/* the panics the evaluation of an expression whose value is not kept (an error message) can raise */
func (g *jt) effects(sc *jtScope, e ast.Expr, hs *[]jtHoist) {
	switch x := e.(type) {
	case *ast.ParenExpr:
		g.effects(sc, x.X, hs)
	case *ast.BasicLit:
	case *ast.Ident:
		if x.Name == "nil" {
			return
		}
		if _, ok := sc.types[x.Name]; !ok {
			g.fail("identifier %s in an error message", x.Name)
		}
	case *ast.BinaryExpr:
		if x.Op != token.ADD {
			g.fail("operator %s in an error message", x.Op)
		}
		g.effects(sc, x.X, hs)
		g.effects(sc, x.Y, hs)
	case *ast.SelectorExpr:
		id, ok := x.X.(*ast.Ident)
		if !ok {
			g.fail("%s in an error message", exprString(x))
			return
		}
		t, ok := sc.types[id.Name]
		if !ok || !strings.HasPrefix(t, "*") || t == "*bufio.Reader" {
			g.fail("%s in an error message", exprString(x))
			return
		}
		if !sc.nonNil[id.Name] {
			g.hoist(hs, "deref", g.name(sc, id.Name))
		}
	case *ast.IndexExpr:
		g.expr(sc, x, hs)
	case *ast.CallExpr:
		switch fn := exprString(x.Fun); fn {
		case "errors.New", "fmt.Errorf", "errors.Join":
			for _, a := range x.Args {
				g.effects(sc, a, hs)
			}
		default:
			if g.isClose(sc, x) {
				return /* the connection is outside the translation; the error it adds is joined to a non-nil one */
			}
			g.fail("call %s in an error message", exprString(x))
		}
	default:
		g.fail("%s in an error message", exprString(e))
	}
}

func (g *jt) isClose(sc *jtScope, e ast.Expr) bool {
	ce, ok := e.(*ast.CallExpr)
	if !ok || len(ce.Args) != 0 {
		return false
	}
	se, ok := ce.Fun.(*ast.SelectorExpr)
	if !ok || se.Sel.Name != "Close" {
		return false
	}
	id, ok := se.X.(*ast.Ident)
	return ok && sc.types[id.Name] == "conn"
}

/* is this error expression visibly non-nil? */
func (g *jt) errNonNil(sc *jtScope, e ast.Expr) bool {
	switch x := e.(type) {
	case *ast.ParenExpr:
		return g.errNonNil(sc, x.X)
	case *ast.Ident:
		return sc.types[x.Name] == "error" && sc.nonNil[x.Name]
	case *ast.CallExpr:
		switch exprString(x.Fun) {
		case "errors.New", "fmt.Errorf":
			return true
		case "errors.Join":
			for _, a := range x.Args {
				if g.errNonNil(sc, a) {
					return true
				}
			}
		}
	}
	return false
}

/* ---------- statements ---------- */

func jtIsErrTest(e ast.Expr, name string) bool {
	be, ok := e.(*ast.BinaryExpr)
	if !ok || be.Op != token.NEQ || !isNilIdent(be.Y) {
		return false
	}
	id, ok := be.X.(*ast.Ident)
	return ok && id.Name == name
}

func (g *jt) failLeaf(ind int, what string) { g.line(ind, g.fail("%s", what)) }

func (g *jt) stmts(ind int, list []ast.Stmt, sc *jtScope, k jtCont) {
	if len(list) == 0 {
		k(ind, sc)
		return
	}
	st, rest := list[0], list[1:]
	switch s := st.(type) {
	case *ast.AssignStmt:
		g.assign(ind, s, rest, sc, k)
	case *ast.DeclStmt:
		gd, ok := s.Decl.(*ast.GenDecl)
		if ok && gd.Tok == token.VAR && len(gd.Specs) == 1 {
			vs := gd.Specs[0].(*ast.ValueSpec)
			if len(vs.Names) == 1 && len(vs.Values) == 0 && vs.Type != nil && typeString(vs.Type) == "map[string]any" {
				sc.declare(vs.Names[0].Name, "map[string]any")
				sc.undecoded[vs.Names[0].Name] = true
				g.stmts(ind, rest, sc, k)
				return
			}
		}
		g.failLeaf(ind, "declaration "+exprStringStmt(st))
	case *ast.IfStmt:
		g.ifStmt(ind, s, rest, sc, k)
	case *ast.ReturnStmt:
		g.ret(ind, s, sc)
	case *ast.BranchStmt:
		if s.Label != nil || sc.loop == nil {
			g.failLeaf(ind, "branch statement "+s.Tok.String())
			return
		}
		switch s.Tok {
		case token.CONTINUE:
			g.again(ind, sc)
		case token.BREAK:
			after := sc.loop.after
			out := sc.clone()
			out.loop = nil
			g.stmts(ind, after, out, g.fallOff)
		default:
			g.failLeaf(ind, "branch statement "+s.Tok.String())
		}
	case *ast.ForStmt:
		g.forStmt(ind, s, rest, sc)
	case *ast.ExprStmt:
		/* cache.Add(key, bundle{…}) */
		if ce, ok := s.X.(*ast.CallExpr); ok && exprString(ce.Fun) == "cache.Add" && g.hasCache && len(ce.Args) == 2 && g.cur == "Get" {
			if _, shadowed := sc.types["cache"]; !shadowed {
				var hs []jtHoist
				key, kt := g.expr(sc, ce.Args[0], &hs)
				val := g.bundleLit(sc, ce.Args[1], &hs)
				if kt != "string" {
					key = g.fail("cache key %s", exprString(ce.Args[0]))
				}
				ind = g.flush(ind, hs)
				g.line(ind, "let cache_ := cache_ ++ [("+key+", ("+val+" : bundle Url Doc))]")
				g.stmts(ind, rest, sc, k)
				return
			}
		}
		g.failLeaf(ind, "statement "+exprStringStmt(st))
	default:
		g.failLeaf(ind, fmt.Sprintf("statement %T", st))
	}
}

func exprStringStmt(s ast.Stmt) string {
	switch x := s.(type) {
	case *ast.ExprStmt:
		return exprString(x.X)
	case *ast.AssignStmt:
		parts := []string{}
		for _, l := range x.Lhs {
			parts = append(parts, exprString(l))
		}
		rs := []string{}
		for _, r := range x.Rhs {
			rs = append(rs, exprString(r))
		}
		return strings.Join(parts, ", ") + " " + x.Tok.String() + " " + strings.Join(rs, ", ")
	}
	return fmt.Sprintf("%T", s)
}

func (g *jt) fallOff(ind int, sc *jtScope) {
	g.failLeaf(ind, "the end of the function is reached without a return")
}

/* `bundle{f: v, …}`: every field an Option, the fields not named are nil */
func (g *jt) bundleLit(sc *jtScope, e ast.Expr, hs *[]jtHoist) string {
	cl, ok := e.(*ast.CompositeLit)
	if !ok || cl.Type == nil || typeString(cl.Type) != "bundle" || len(g.bundle) == 0 {
		return g.fail("cache entry %s", exprString(e))
	}
	given := map[string]string{}
	for _, el := range cl.Elts {
		kv, ok := el.(*ast.KeyValueExpr)
		if !ok {
			return g.fail("positional field in a bundle literal")
		}
		fname := exprString(kv.Key)
		ftype := ""
		for _, f := range g.bundle {
			if f[0] == fname {
				ftype = f[1]
			}
		}
		if ftype == "" {
			return g.fail("field %s of bundle", fname)
		}
		v, vt := g.expr(sc, kv.Value, hs)
		switch {
		case ftype == "map[string]any" && vt == "map[string]any":
			v = "(some " + v + ")"
		case ftype == "*url.URL" && (vt == "*url.URL" || vt == "&url.URL"):
			v, _ = g.option(v, vt)
		case vt == "nil":
			v = "none"
		default:
			return g.fail("field %s of bundle given a %s", fname, vt)
		}
		given[fname] = v
	}
	parts := []string{}
	for _, f := range g.bundle {
		v, ok := given[f[0]]
		if !ok {
			v = "none"
		}
		parts = append(parts, lkIdent(f[0])+" := "+v)
	}
	return "{ " + strings.Join(parts, ", ") + " }"
}

/* the recursive call of the loop function with the current values */
func (g *jt) again(ind int, sc *jtScope) {
	if sc.loop == nil {
		g.failLeaf(ind, "continue outside a loop")
		return
	}
	if sc.buf == "" || !sc.readHyp {
		g.failLeaf(ind, "a loop iteration that goes round without having read exactly one line from the reader it started with (no measure)")
		return
	}
	args := []string{}
	for _, v := range sc.loop.vars {
		args = append(args, g.name(sc, v))
	}
	g.line(ind, sc.loop.name+" W "+strings.Join(append(args, sc.bufLean), " "))
}

func (g *jt) nextBuf(sc *jtScope) string {
	sc.bufN++
	sc.bufLean = fmt.Sprintf("%s_%d", lkIdent(sc.buf), sc.bufN)
	return sc.bufLean
}

/* what kind of fallible call is this right-hand side? */
func (g *jt) fallible(sc *jtScope, e ast.Expr) string {
	ce, ok := e.(*ast.CallExpr)
	if !ok {
		return ""
	}
	fn := exprString(ce.Fun)
	switch fn {
	case "mime.Parse", "url.Parse":
		return fn
	}
	if id, ok := ce.Fun.(*ast.Ident); ok {
		if _, ok := g.funcs[id.Name]; ok && id.Name != "Get" {
			if _, shadowed := sc.types[id.Name]; !shadowed {
				return "local"
			}
		}
	}
	if se, ok := ce.Fun.(*ast.SelectorExpr); ok {
		if id, ok := se.X.(*ast.Ident); ok && se.Sel.Name == "ReadString" && sc.buf != "" && id.Name == sc.buf {
			return "ReadString"
		}
		if se.Sel.Name == "Decode" {
			if inner, ok := se.X.(*ast.CallExpr); ok && exprString(inner.Fun) == "json.NewDecoder" {
				return "Decode"
			}
		}
	}
	return ""
}

func (g *jt) assign(ind int, s *ast.AssignStmt, rest []ast.Stmt, sc *jtScope, k jtCont) {
	if len(s.Rhs) != 1 || (s.Tok != token.DEFINE && s.Tok != token.ASSIGN) {
		g.failLeaf(ind, "assignment "+exprStringStmt(s))
		return
	}
	lhs := []string{}
	for _, l := range s.Lhs {
		id, ok := l.(*ast.Ident)
		if !ok {
			g.failLeaf(ind, "assignment to "+exprString(l))
			return
		}
		lhs = append(lhs, id.Name)
	}
	kind := g.fallible(sc, s.Rhs[0])
	if kind == "" {
		/* a plain value */
		if len(lhs) != 1 {
			g.failLeaf(ind, "assignment "+exprStringStmt(s))
			return
		}
		var hs []jtHoist
		v, t := g.expr(sc, s.Rhs[0], &hs)
		if s.Tok == token.ASSIGN {
			old, ok := sc.types[lhs[0]]
			if !ok || (old != t && !(strings.HasPrefix(old, "*") && (t == "nil" || t == "&"+old[1:]))) || lhs[0] == sc.buf || sc.nonNil[lhs[0]] {
				g.failLeaf(ind, "assignment "+exprStringStmt(s)+" ("+old+" = "+t+")")
				return
			}
			v, _ = g.option(v, t)
		} else {
			if t == "nil" || t == "?" {
				g.failLeaf(ind, "definition "+exprStringStmt(s))
				return
			}
			v, t = g.option(v, t)
			sc.declare(lhs[0], t)
		}
		ind = g.flush(ind, hs)
		g.line(ind, "let "+lkIdent(lhs[0])+" := "+v)
		g.stmts(ind, rest, sc, k)
		return
	}
	/* v…, err := call  followed by  if err != nil { … } */
	errName := lhs[len(lhs)-1]
	if len(rest) == 0 {
		g.failLeaf(ind, "the error of "+exprString(s.Rhs[0])+" is not tested at once")
		return
	}
	test, ok := rest[0].(*ast.IfStmt)
	if !ok || test.Init != nil || test.Else != nil || !jtIsErrTest(test.Cond, errName) {
		g.failLeaf(ind, "the error of "+exprString(s.Rhs[0])+" is not tested at once")
		return
	}
	if s.Tok == token.ASSIGN {
		if sc.types[errName] != "error" {
			g.failLeaf(ind, "assignment "+exprStringStmt(s))
			return
		}
	}
	for _, v := range lhs[:len(lhs)-1] {
		if s.Tok == token.ASSIGN && v != "_" {
			g.failLeaf(ind, "assignment (not definition) of the values of "+exprString(s.Rhs[0]))
			return
		}
	}
	rest = rest[1:]
	ce := s.Rhs[0].(*ast.CallExpr)
	var hs []jtHoist
	onErr := func(ind int) {
		esc := sc.clone()
		esc.declare(errName, "error")
		esc.nonNil[errName] = true
		esc.top = false
		g.stmts(ind, test.Body.List, esc, func(ind int, _ *jtScope) {
			g.failLeaf(ind, "the branch for a failed "+exprString(ce.Fun)+" does not return")
		})
	}
	okScope := func() *jtScope {
		n := sc.clone()
		n.declare(errName, "error")
		return n
	}
	switch kind {
	case "ReadString":
		if len(lhs) != 2 || len(ce.Args) != 1 {
			g.failLeaf(ind, "call "+exprStringStmt(s))
			return
		}
		if bl, ok := ce.Args[0].(*ast.BasicLit); !ok || bl.Kind != token.CHAR || bl.Value != `'\n'` {
			g.failLeaf(ind, "ReadString with a delimiter other than '\\n'")
			return
		}
		g.extUsed["readString"] = true
		old := sc.bufLean
		hyp := ""
		if sc.loop != nil {
			hyp = "h_ : "
			if sc.bufN != 0 {
				g.failLeaf(ind, "a second read in one iteration of a loop (no measure)")
				return
			}
		}
		g.line(ind, "match "+hyp+"W.readString "+old+" with")
		g.line(ind, "| none => (")
		onErr(ind + 1)
		g.line(ind+1, ")")
		n := okScope()
		nb := g.nextBuf(n)
		n.readHyp = sc.loop != nil
		n.declare(lhs[0], "string")
		g.line(ind, "| some ("+lkIdent(lhs[0])+", "+nb+") =>")
		g.stmts(ind+1, rest, n, k)
	case "mime.Parse", "url.Parse":
		if len(lhs) != 2 || len(ce.Args) != 1 {
			g.failLeaf(ind, "call "+exprStringStmt(s))
			return
		}
		a, at := g.expr(sc, ce.Args[0], &hs)
		if at != "string" {
			a = g.fail("argument of %s", kind)
		}
		field, typ := "mimeParse", "*mime.MediaType"
		if kind == "url.Parse" {
			field, typ = "urlParse", "*url.URL"
		}
		g.extUsed[field] = true
		ind = g.flush(ind, hs)
		g.line(ind, "match W."+field+" "+a+" with")
		g.line(ind, "| none => (")
		onErr(ind + 1)
		g.line(ind+1, ")")
		n := okScope()
		/* on success the library hands out a pointer that is not nil */
		if lhs[0] == "_" {
			g.line(ind, "| some _ =>")
		} else {
			g.line(ind, "| some "+lkIdent(lhs[0])+" =>")
			n.declare(lhs[0], typ)
			n.nonNil[lhs[0]] = true
		}
		g.stmts(ind+1, rest, n, k)
	case "Decode":
		/* err = json.NewDecoder(buf).Decode(&v) */
		se := ce.Fun.(*ast.SelectorExpr)
		inner := se.X.(*ast.CallExpr)
		target := ""
		if len(ce.Args) == 1 {
			if ue, ok := ce.Args[0].(*ast.UnaryExpr); ok && ue.Op == token.AND {
				if id, ok := ue.X.(*ast.Ident); ok && sc.undecoded[id.Name] {
					target = id.Name
				}
			}
		}
		if len(lhs) != 1 || target == "" || len(inner.Args) != 1 || exprString(inner.Args[0]) != sc.buf || sc.buf == "" {
			g.failLeaf(ind, "call "+exprStringStmt(s))
			return
		}
		g.extUsed["decode"] = true
		g.line(ind, "match W.decode "+sc.bufLean+" with")
		g.line(ind, "| none => (")
		onErr(ind + 1)
		g.line(ind+1, ")")
		n := okScope()
		delete(n.undecoded, target)
		/* the decoder has consumed an unknown part of the reader: it cannot be read again */
		n.buf = ""
		g.line(ind, "| some "+lkIdent(target)+" =>")
		g.stmts(ind+1, rest, n, k)
	case "local":
		fd := g.funcs[exprString(ce.Fun)]
		ts, _ := jtResults(fd)
		if len(ts) == 0 || ts[len(ts)-1] != "error" || len(lhs) != len(ts) || len(ce.Args) != len(fd.Type.Params.List) {
			g.failLeaf(ind, "call "+exprStringStmt(s))
			return
		}
		args := []string{}
		takesBuf := false
		for i, p := range fd.Type.Params.List {
			pt := typeString(p.Type)
			if len(p.Names) != 1 {
				g.failLeaf(ind, "parameter list of "+fd.Name.Name)
				return
			}
			if pt == "*bufio.Reader" {
				if exprString(ce.Args[i]) != sc.buf || sc.buf == "" {
					g.failLeaf(ind, "reader argument "+exprString(ce.Args[i]))
					return
				}
				takesBuf = true
				args = append(args, sc.bufLean)
				continue
			}
			a, at := g.expr(sc, ce.Args[i], &hs)
			if strings.HasPrefix(pt, "*") {
				/* pointer parameters are taken to be non-nil */
				a, at = g.value(a, at, &hs)
				if at != "&"+pt[1:] {
					a = g.fail("argument %s of %s", exprString(ce.Args[i]), fd.Name.Name)
				}
			} else if at != pt {
				a = g.fail("argument %s of %s (%s for %s)", exprString(ce.Args[i]), fd.Name.Name, at, pt)
			}
			args = append(args, a)
		}
		if takesBuf && sc.loop != nil {
			g.failLeaf(ind, "the reader handed to "+fd.Name.Name+" inside a loop (no measure)")
			return
		}
		ind = g.flush(ind, hs)
		g.line(ind, "match "+fd.Name.Name+" W "+strings.Join(args, " ")+" with")
		g.line(ind, "| .error (.panic p_) => .error (.panic p_)")
		g.line(ind, "| .error .err => (")
		onErr(ind + 1)
		g.line(ind+1, ")")
		n := okScope()
		pats := []string{}
		for i, v := range lhs[:len(lhs)-1] {
			n.declare(v, ts[i])
			if v == "_" {
				pats = append(pats, "_")
			} else {
				pats = append(pats, lkIdent(v))
			}
		}
		if takesBuf {
			pats = append(pats, g.nextBuf(n))
			n.readHyp = false
		}
		pat := "_"
		if len(pats) == 1 {
			pat = pats[0]
		} else if len(pats) > 1 {
			pat = "(" + strings.Join(pats, ", ") + ")"
		}
		g.line(ind, "| .ok "+pat+" =>")
		g.stmts(ind+1, rest, n, k)
	}
}

func (g *jt) ifStmt(ind int, s *ast.IfStmt, rest []ast.Stmt, sc *jtScope, k jtCont) {
	thenK := func(ind int, tsc *jtScope) {
		/* the branch falls through: the rest of the block follows, with the branch's assignments */
		n := tsc.clone()
		n.top = sc.top
		g.stmts(ind, rest, n, k)
	}
	/* if err := connection.Close(); err != nil { … } */
	if s.Init != nil {
		as, ok := s.Init.(*ast.AssignStmt)
		if ok && as.Tok == token.DEFINE && len(as.Lhs) == 1 && len(as.Rhs) == 1 && g.isClose(sc, as.Rhs[0]) && s.Else == nil {
			if id, ok := as.Lhs[0].(*ast.Ident); ok && jtIsErrTest(s.Cond, id.Name) {
				g.extUsed["closeFails"] = true
				g.line(ind, "if W.closeFails then (")
				esc := sc.clone()
				esc.declare(id.Name, "error")
				esc.nonNil[id.Name] = true
				esc.top = false
				g.stmts(ind+1, s.Body.List, esc, func(ind int, _ *jtScope) {
					g.failLeaf(ind, "the branch for a failed Close does not return")
				})
				g.line(ind+1, ") else")
				g.stmts(ind+1, rest, sc.clone(), k)
				return
			}
		}
		g.failLeaf(ind, "if with an initialiser")
		return
	}
	var hs []jtHoist
	c, ct := g.expr(sc, s.Cond, &hs)
	if ct != "bool" {
		c = g.fail("condition %s", exprString(s.Cond))
	}
	ind = g.flush(ind, hs)
	g.line(ind, "if "+c+" then (")
	tsc := sc.clone()
	tsc.top = false
	g.stmts(ind+1, s.Body.List, tsc, thenK)
	g.line(ind+1, ") else")
	esc := sc.clone()
	switch e := s.Else.(type) {
	case nil:
		g.stmts(ind+1, rest, esc, k)
	case *ast.BlockStmt:
		esc.top = false
		g.stmts(ind+1, e.List, esc, thenK)
	case *ast.IfStmt:
		esc.top = false
		g.ifStmt(ind+1, e, nil, esc, thenK)
	default:
		g.failLeaf(ind+1, "else branch")
	}
}

func (g *jt) ret(ind int, s *ast.ReturnStmt, sc *jtScope) {
	fd := g.funcs[g.cur]
	ts, _ := jtResults(fd)
	var hs []jtHoist
	/* return Get(l, accept, tolerated, n) */
	if g.cur == "Get" && len(s.Results) == 1 {
		ce, ok := s.Results[0].(*ast.CallExpr)
		if ok && exprString(ce.Fun) == "Get" && len(ce.Args) == len(g.getParams) {
			vals := []string{}
			for i, p := range g.getParams {
				want := g.getTypes[i]
				if want != "*url.URL" && want != "uint" {
					/* not part of the reply: must be handed on as it came */
					if exprString(ce.Args[i]) != p {
						g.failLeaf(ind, "the recursive Get is given another "+p)
						return
					}
					continue
				}
				v, t := g.expr(sc, ce.Args[i], &hs)
				v, t = g.option(v, t)
				if t != want {
					v = g.fail("argument %s of the recursive Get (%s for %s)", p, t, want)
				}
				vals = append(vals, v)
			}
			ind = g.flush(ind, hs)
			g.line(ind, ".ok (.again "+strings.Join(vals, " ")+" cache_)")
			return
		}
	}
	if len(s.Results) != len(ts) || len(ts) == 0 {
		g.failLeaf(ind, "return without values")
		return
	}
	errE := s.Results[len(ts)-1]
	if !isNilIdent(errE) {
		if !g.errNonNil(sc, errE) {
			g.failLeaf(ind, "the returned error "+exprString(errE)+" is not known to be non-nil here")
			return
		}
		for _, v := range s.Results[:len(ts)-1] {
			switch x := v.(type) {
			case *ast.Ident:
				continue
			case *ast.BasicLit:
				continue
			default:
				g.failLeaf(ind, "value "+exprString(x)+" computed next to an error")
				return
			}
		}
		g.effects(sc, errE, &hs)
		ind = g.flush(ind, hs)
		g.line(ind, ".error .err")
		return
	}
	vals := []string{}
	for i, e := range s.Results[:len(ts)-1] {
		v, t := g.expr(sc, e, &hs)
		want := ts[i]
		switch {
		case strings.HasPrefix(want, "*") && t == "nil":
		case strings.HasPrefix(want, "*") && (t == want || t == "&"+want[1:]):
			v, _ = g.option(v, t)
		case t == want && !strings.HasPrefix(want, "*"):
		default:
			v = g.fail("returned value %s (%s for %s)", exprString(e), t, want)
		}
		vals = append(vals, v)
	}
	ind = g.flush(ind, hs)
	if g.cur == "Get" {
		g.line(ind, ".ok (.done "+strings.Join(vals, " ")+" cache_)")
		return
	}
	if jtBufParam(fd) != "" {
		if sc.buf == "" {
			g.failLeaf(ind, "the state of the reader is not known at this return")
			return
		}
		vals = append(vals, sc.bufLean)
	}
	switch len(vals) {
	case 0:
		g.line(ind, ".ok ()")
	case 1:
		g.line(ind, ".ok "+vals[0])
	default:
		g.line(ind, ".ok ("+strings.Join(vals, ", ")+")")
	}
}

/* identifiers read or written in a list of statements */
func jtMentions(list []ast.Stmt) map[string]bool {
	out := map[string]bool{}
	for _, s := range list {
		ast.Inspect(s, func(n ast.Node) bool {
			switch x := n.(type) {
			case *ast.SelectorExpr:
				ast.Inspect(x.X, func(m ast.Node) bool {
					if id, ok := m.(*ast.Ident); ok {
						out[id.Name] = true
					}
					return true
				})
				return false
			case *ast.KeyValueExpr:
				ast.Inspect(x.Value, func(m ast.Node) bool {
					if id, ok := m.(*ast.Ident); ok {
						out[id.Name] = true
					}
					return true
				})
				return false
			case *ast.Ident:
				out[x.Name] = true
			}
			return true
		})
	}
	return out
}

func (g *jt) forStmt(ind int, s *ast.ForStmt, rest []ast.Stmt, sc *jtScope) {
	if s.Init != nil || s.Cond != nil || s.Post != nil {
		g.failLeaf(ind, "a for loop with a header")
		return
	}
	if !sc.top || sc.loop != nil {
		g.failLeaf(ind, "a loop that is not at the top level of its function")
		return
	}
	if sc.buf == "" || sc.bufN != 0 {
		g.failLeaf(ind, "a loop in a function that has no reader of its own to measure its progress")
		return
	}
	used := jtMentions(append([]ast.Stmt{s.Body}, rest...))
	vars := []string{}
	for _, v := range sc.order {
		if v == sc.buf || !used[v] {
			continue
		}
		if t := sc.types[v]; t == "error" {
			continue
		}
		vars = append(vars, v)
	}
	loop := &jtLoop{name: g.cur + "_loop", vars: vars, after: rest}
	args := []string{}
	for _, v := range vars {
		args = append(args, g.name(sc, v))
	}
	g.line(ind, loop.name+" W "+strings.Join(append(args, sc.bufLean), " "))

	/* the loop function */
	saved := g.b
	g.b = &strings.Builder{}
	fd := g.funcs[g.cur]
	params := ""
	for _, v := range vars {
		t := sc.types[v]
		if strings.HasPrefix(t, "*") && sc.nonNil[v] {
			t = "&" + t[1:]
		}
		params += " (" + lkIdent(v) + " : " + g.leanType(t) + ")"
	}
	g.line(0, "/-- the `for { … }` of `"+g.cur+"` and the statements after it: one call per iteration; its parameters are the variables they use, then the input not yet read -/")
	g.line(0, "def "+loop.name+" (W : Ext "+jtTVars+")"+params+" ("+lkIdent(sc.buf)+" : Str) : Except Go.Fail "+g.okType(fd)+" :=")
	lsc := sc.clone()
	lsc.loop = loop
	lsc.top = false
	lsc.bufLean = lkIdent(sc.buf)
	lsc.bufN = 0
	lsc.readHyp = false
	g.stmts(1, s.Body.List, lsc, func(ind int, end *jtScope) { g.again(ind, end) })
	g.line(0, "termination_by "+lkIdent(sc.buf)+".length")
	g.line(0, "decreasing_by all_goals exact W.readString_shorter _ _ _ h_")
	g.line(0, "")
	g.pre = append(g.pre, g.b.String())
	g.b = saved
}

/* ---------- functions ---------- */

func (g *jt) function(fd *ast.FuncDecl) string {
	g.cur = fd.Name.Name
	g.b = &strings.Builder{}
	g.pre = nil
	g.fresh = 0
	sc := &jtScope{types: map[string]string{}, nonNil: map[string]bool{}, undecoded: map[string]bool{}, top: true}
	params := ""
	for _, p := range fd.Type.Params.List {
		t := typeString(p.Type)
		for _, n := range p.Names {
			sc.declare(n.Name, t)
			if t == "*bufio.Reader" {
				if sc.buf != "" {
					g.fail("two readers")
				}
				sc.buf = n.Name
				sc.bufLean = lkIdent(n.Name)
				params += " (" + lkIdent(n.Name) + " : Str)"
				continue
			}
			if strings.HasPrefix(t, "*") {
				sc.nonNil[n.Name] = true
				t = "&" + t[1:]
			}
			params += " (" + lkIdent(n.Name) + " : " + g.leanType(t) + ")"
		}
	}
	ts, names := jtResults(fd)
	for i, n := range names {
		if n != "" {
			sc.declare(n, ts[i])
		}
	}
	g.line(0, "/-- `func "+fd.Name.Name+"` -/")
	g.line(0, "def "+fd.Name.Name+" (W : Ext "+jtTVars+")"+params+" : Except Go.Fail "+g.okType(fd)+" :=")
	g.stmts(1, fd.Body.List, sc, g.fallOff)
	g.line(0, "")
	return strings.Join(g.pre, "") + g.b.String()
}

/* the statements of Get after `buf := bufio.NewReader(connection)` */
func (g *jt) response(fd *ast.FuncDecl) string {
	g.cur = "Get"
	g.b = &strings.Builder{}
	g.pre = nil
	g.fresh = 0
	sc := &jtScope{types: map[string]string{}, nonNil: map[string]bool{}, undecoded: map[string]bool{}, top: true}
	g.getParams = nil
	g.getTypes = nil
	for _, p := range fd.Type.Params.List {
		for _, n := range p.Names {
			g.getParams = append(g.getParams, n.Name)
			g.getTypes = append(g.getTypes, typeString(p.Type))
			sc.declare(n.Name, typeString(p.Type))
			if strings.HasPrefix(typeString(p.Type), "*") {
				sc.nonNil[n.Name] = true
			}
		}
	}
	start := -1
	for i, st := range fd.Body.List {
		as, ok := st.(*ast.AssignStmt)
		if ok && len(as.Rhs) == 1 {
			rhs := as.Rhs[0]
			lhs0 := ""
			if id, ok := as.Lhs[0].(*ast.Ident); ok {
				lhs0 = id.Name
			}
			if ce, ok := rhs.(*ast.CallExpr); ok {
				switch exprString(ce.Fun) {
				case "bufio.NewReader":
					if len(ce.Args) == 1 && as.Tok == token.DEFINE && len(as.Lhs) == 1 && sc.types[exprString(ce.Args[0])] == "conn" && start < 0 {
						start = i + 1
						sc.declare(lhs0, "*bufio.Reader")
						sc.buf = lhs0
						sc.bufLean = lkIdent(lhs0)
					}
				case "tls.DialWithDialer":
					if as.Tok == token.DEFINE && len(as.Lhs) == 2 {
						sc.declare(lhs0, "conn")
						sc.declare(exprString(as.Lhs[1]), "error")
					}
				}
			}
			/* a string built before the response is read (the cache key) */
			if as.Tok == token.DEFINE && len(as.Lhs) == 1 && jtIsStringConcat(rhs) {
				sc.declare(lhs0, "string")
			}
		}
		if start >= 0 {
			break
		}
	}
	if start < 0 {
		g.fail("no `buf := bufio.NewReader(connection)` in Get")
		return "-- UNTRANSLATABLE: the reader of Get was not found\ndef Get_response := sorry_untranslatable\n\n"
	}
	tail := fd.Body.List[start:]
	used := jtMentions(tail)
	params := ""
	keep := &jtScope{types: map[string]string{}, nonNil: map[string]bool{}, undecoded: map[string]bool{}, top: true, buf: sc.buf, bufLean: sc.bufLean}
	for _, v := range sc.order {
		t := sc.types[v]
		if !used[v] && v != sc.buf {
			continue
		}
		switch {
		case v == sc.buf:
			keep.declare(v, t)
			continue
		case t == "conn" || t == "error":
			keep.declare(v, t)
			continue
		case v == "accept":
			keep.declare(v, "passed-on")
			continue
		}
		keep.declare(v, t)
		lt := t
		if strings.HasPrefix(t, "*") {
			keep.nonNil[v] = true
			lt = "&" + t[1:]
		}
		params += " (" + lkIdent(v) + " : " + g.leanType(lt) + ")"
	}
	params += " (" + sc.bufLean + " : Str)"
	g.line(0, "/-- the statements of `func Get` after `"+sc.buf+" := bufio.NewReader(connection)`: what the response means -/")
	g.line(0, "def Get_response (W : Ext "+jtTVars+")"+params+" : Except Go.Fail (Reply Url Doc) :=")
	g.line(1, "let cache_ : List (Str × bundle Url Doc) := []")
	g.stmts(1, tail, keep, g.fallOff)
	g.line(0, "")
	return strings.Join(g.pre, "") + g.b.String()
}

func jtIsStringConcat(e ast.Expr) bool {
	be, ok := e.(*ast.BinaryExpr)
	if !ok || be.Op != token.ADD {
		return false
	}
	isStr := func(x ast.Expr) bool {
		bl, ok := x.(*ast.BasicLit)
		return ok && bl.Kind == token.STRING
	}
	return isStr(be.X) || isStr(be.Y) || jtIsStringConcat(be.X) || jtIsStringConcat(be.Y)
}

func translateJtp(f *ast.File, names []string) (string, []string) {
	g := &jt{funcs: map[string]*ast.FuncDecl{}, regexUsed: map[string]bool{}, extUsed: map[string]bool{}, file: f}
	for _, d := range f.Decls {
		switch x := d.(type) {
		case *ast.FuncDecl:
			if x.Recv == nil {
				g.funcs[x.Name.Name] = x
			}
		case *ast.GenDecl:
			for _, sp := range x.Specs {
				switch s := sp.(type) {
				case *ast.ValueSpec:
					if x.Tok != token.VAR {
						continue
					}
					if len(s.Values) == 1 {
						if ce, ok := s.Values[0].(*ast.CallExpr); ok {
							if exprString(ce.Fun) == "regexp.MustCompile" && len(s.Names) == 1 {
								g.regexVars = append(g.regexVars, s.Names[0].Name)
							}
							fun := ce.Fun
							switch ix := fun.(type) {
							case *ast.IndexListExpr:
								fun = ix.X
							case *ast.IndexExpr:
								fun = ix.X
							}
							if exprString(fun) == "lru.New" && len(s.Names) >= 1 && s.Names[0].Name == "cache" {
								g.hasCache = true
							}
						}
					}
				case *ast.TypeSpec:
					if st, ok := s.Type.(*ast.StructType); ok && s.Name.Name == "bundle" {
						for _, fl := range st.Fields.List {
							for _, n := range fl.Names {
								g.bundle = append(g.bundle, [2]string{n.Name, typeString(fl.Type)})
							}
						}
					}
				}
			}
		}
	}
	bodies := []string{}
	for _, n := range names {
		fd, ok := g.funcs[n]
		if !ok {
			g.cur = n
			g.fail("function %s not found", n)
			bodies = append(bodies, "def "+n+" := sorry_untranslatable\n\n")
			continue
		}
		if n == "Get" {
			bodies = append(bodies, g.response(fd))
		} else {
			bodies = append(bodies, g.function(fd))
		}
	}
	var out strings.Builder
	w := func(s string) { out.WriteString(s + "\n") }
	w("set_option linter.unusedVariables false")
	w("")
	w("namespace GenJtp")
	w("")
	w("/-- The world outside jtp/jtp.go, as far as the translated functions call it: one field per")
	w("    external the source uses (added when a call of it is translated). -/")
	w("structure Ext (" + jtTVars + " : Type) where")
	if g.extUsed["readString"] {
		w("  /-- `buf.ReadString('\\n')` on the `*bufio.Reader`: the line with its terminator and the input left, or an error -/")
		w("  readString : Str → Option (Str × Str)")
		w("  /-- a successful read consumes at least the terminator: the measure of the loops -/")
		w("  readString_shorter : ∀ s l r, readString s = some (l, r) → r.length < s.length")
	}
	for _, r := range g.regexVars {
		if g.regexUsed[r] {
			w("  /-- `" + r + ".FindStringSubmatch`: `none` for nil (no match), else the whole match and the groups -/")
			w("  " + lkIdent(r) + " : Str → Option (List Str)")
		}
	}
	type ext struct{ name, doc, typ string }
	for _, e := range []ext{
		{"mimeParse", "`mime.Parse`: the media type, or an error", "Str → Option MT"},
		{"mediaTypeMatches", "`(*mime.MediaType).Matches`", "MT → List Str → Bool"},
		{"urlParse", "`url.Parse`: the reference, or an error", "Str → Option Url"},
		{"resolveReference", "`(*url.URL).ResolveReference`", "Url → Url → Url"},
		{"decode", "`json.NewDecoder(buf).Decode(&v)` for a `map[string]any` on the input left: the value, or an error", "Str → Option Doc"},
		{"closeFails", "whether `connection.Close()` returns an error where its result is tested", "Bool"},
	} {
		if g.extUsed[e.name] {
			w("  /-- " + e.doc + " -/")
			w("  " + e.name + " : " + e.typ)
		}
	}
	w("")
	if len(g.bundle) > 0 {
		w("/-- `type bundle struct`: what the cache remembers under a key (nil pointers and maps are `none`) -/")
		w("structure bundle (Url Doc : Type) where")
		for _, f := range g.bundle {
			t := ""
			switch f[1] {
			case "map[string]any":
				t = "Option Doc"
			case "*url.URL":
				t = "Option Url"
			default:
				g.cur = "bundle"
				t = g.fail("field type %s", f[1])
			}
			w("  " + lkIdent(f[0]) + " : " + t)
		}
		w("")
		w("/-- How `Get` ends after reading a response, other than with an error: with the document, or by")
		w("    calling itself on another link with another budget (`accept` and `tolerated` unchanged).")
		w("    `added`: the `cache.Add` calls made on the way, in order. -/")
		w("inductive Reply (Url Doc : Type) where")
		w("  | done (item : Doc) (source : Option Url) (added : List (Str × bundle Url Doc))")
		again := ""
		for i, p := range g.getParams {
			switch g.getTypes[i] {
			case "*url.URL":
				again += " (" + lkIdent(p) + " : Option Url)"
			case "uint":
				again += " (" + lkIdent(p) + " : Nat)"
			}
		}
		w("  | again" + again + " (added : List (Str × bundle Url Doc))")
		w("")
	}
	w("variable {" + jtTVars + " : Type}")
	w("")
	for _, b := range bodies {
		out.WriteString(b)
	}
	w("end GenJtp")
	return out.String(), g.errs
}
