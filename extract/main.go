/*
extract: a deliberately tiny go/ast fact extractor.  It reads servitor's source tree and prints
lean/Generated/Facts.lean: constants, literals, import sets, the byte template of the only
connection.Write, and the lock/access skeleton of ui/ui.go.  It extracts syntax; it does not
interpret.  The Lean theorems in Props/ are stated over these generated definitions, so a source
change that alters a fact is re-checked on the next build.

	extract <repo-root>   > Facts.lean
*/
package main

import (
	"fmt"
	"go/ast"
	"go/parser"
	"go/token"
	"os"
	"path/filepath"
	"regexp"
	"sort"
	"strconv"
	"strings"
)

var fset = token.NewFileSet()

func parseFile(root, rel string) *ast.File {
	f, err := parser.ParseFile(fset, filepath.Join(root, rel), nil, 0)
	if err != nil {
		fmt.Fprintln(os.Stderr, "extract:", err)
		os.Exit(1)
	}
	return f
}

func leanStr(s string) string {
	var b strings.Builder
	b.WriteByte('"')
	for _, r := range s {
		switch {
		case r == '"':
			b.WriteString("\\\"")
		case r == '\\':
			b.WriteString("\\\\")
		case r == '\n':
			b.WriteString("\\n")
		case r == '\r':
			b.WriteString("\\r")
		case r == '\t':
			b.WriteString("\\t")
		case r < 0x20 || r == 0x7f:
			b.WriteString(fmt.Sprintf("\\x%02x", r))
		default:
			b.WriteRune(r)
		}
	}
	b.WriteByte('"')
	return b.String()
}

func leanList(xs []string) string {
	q := make([]string, len(xs))
	for i, x := range xs {
		q[i] = leanStr(x)
	}
	return "[" + strings.Join(q, ", ") + "]"
}

func exprString(e ast.Expr) string {
	switch x := e.(type) {
	case *ast.Ident:
		return x.Name
	case *ast.SelectorExpr:
		return exprString(x.X) + "." + x.Sel.Name
	case *ast.CallExpr:
		return exprString(x.Fun) + "()"
	case *ast.IndexExpr:
		return exprString(x.X) + "[" + exprString(x.Index) + "]"
	case *ast.StarExpr:
		return "*" + exprString(x.X)
	case *ast.BasicLit:
		return x.Value
	case *ast.ParenExpr:
		return exprString(x.X)
	case *ast.SliceExpr:
		lo, hi := "", ""
		if x.Low != nil {
			lo = exprString(x.Low)
		}
		if x.High != nil {
			hi = exprString(x.High)
		}
		return exprString(x.X) + "[" + lo + ":" + hi + "]"
	case *ast.Ellipsis:
		return "..."
	case *ast.UnaryExpr:
		return x.Op.String() + exprString(x.X)
	case *ast.BinaryExpr:
		return exprString(x.X) + x.Op.String() + exprString(x.Y)
	}
	return fmt.Sprintf("<%T>", e)
}

func unquote(lit *ast.BasicLit) string {
	s, err := strconv.Unquote(lit.Value)
	if err != nil {
		return lit.Value
	}
	return s
}

/* ---------- imports ---------- */

func goFiles(root string) []string {
	out := []string{}
	filepath.Walk(root, func(p string, info os.FileInfo, err error) error {
		if err != nil {
			return nil
		}
		if info.IsDir() && (info.Name() == ".git" || info.Name() == "cmd") {
			return filepath.SkipDir
		}
		if strings.HasSuffix(p, ".go") && !strings.HasSuffix(p, "_test.go") && !strings.HasSuffix(p, "verif_shim.go") {
			rel, _ := filepath.Rel(root, p)
			out = append(out, rel)
		}
		return nil
	})
	sort.Strings(out)
	return out
}

/* ---------- the flattening of a string concatenation ---------- */

func flattenConcat(e ast.Expr, out *[]string) {
	switch x := e.(type) {
	case *ast.BinaryExpr:
		if x.Op == token.ADD {
			flattenConcat(x.X, out)
			flattenConcat(x.Y, out)
			return
		}
	case *ast.BasicLit:
		if x.Kind == token.STRING {
			*out = append(*out, unquote(x))
			return
		}
	case *ast.ParenExpr:
		flattenConcat(x.X, out)
		return
	}
	*out = append(*out, "@"+exprString(e))
}

/* ---------- ui skeleton ---------- */

type skeleton struct {
	name   string
	events []string
}

/* fields of State / Page whose accesses are recorded */
var stateFields = map[string]bool{"mode": true, "buffer": true, "h": true, "width": true, "height": true}
var pageFields = map[string]bool{"feed": true, "frontier": true, "loadingUp": true, "children": true, "basepoint": true, "loadingDown": true}

type walker struct {
	skeletons *[]skeleton
	cur       *skeleton
	pageVars  map[string]bool
	goCount   *int
	fnName    string
}

func (w *walker) emit(ev string) { w.cur.events = append(w.cur.events, ev) }

/* classify a selector expression as a state/page access: "s.mode", "page.feed", "s.h.Current().feed" */
func (w *walker) accessOf(e ast.Expr) (string, bool) {
	sel, ok := e.(*ast.SelectorExpr)
	if !ok {
		return "", false
	}
	base := exprString(sel.X)
	if base == "s" && stateFields[sel.Sel.Name] {
		return "s." + sel.Sel.Name, true
	}
	if pageFields[sel.Sel.Name] && w.pageVars[base] {
		/* through a local variable holding one particular page */
		return "page." + sel.Sel.Name, true
	}
	if pageFields[sel.Sel.Name] && base == "s.h.Current()" {
		/* whatever page is current at that moment */
		return "cur." + sel.Sel.Name, true
	}
	return "", false
}

func (w *walker) expr(e ast.Expr, write bool) {
	if e == nil {
		return
	}
	switch x := e.(type) {
	case *ast.SelectorExpr:
		if acc, ok := w.accessOf(x); ok {
			if base := exprString(x.X); base == "s.h.Current()" {
				w.emit("rd s.h")
			}
			if write {
				w.emit("wr " + acc)
			} else {
				w.emit("rd " + acc)
			}
			return
		}
		w.expr(x.X, false)
	case *ast.CallExpr:
		fn := exprString(x.Fun)
		switch fn {
		case "s.m.Lock":
			w.emit("lock")
			return
		case "s.m.Unlock":
			w.emit("unlock")
			return
		case "s.output":
			for _, a := range x.Args {
				w.expr(a, false)
			}
			w.emit("emit " + exprString(x.Args[0]))
			return
		}
		/* method call on a state/page field: conservatively a write of that field */
		if sel, ok := x.Fun.(*ast.SelectorExpr); ok {
			if acc, ok2 := w.accessOf(sel.X); ok2 {
				if base, okb := sel.X.(*ast.SelectorExpr); okb && exprString(base.X) == "s.h.Current()" {
					w.emit("rd s.h")
				}
				mut := map[string]bool{"Add": true, "Back": true, "Forward": true, "MoveUp": true, "MoveDown": true, "MoveToCenter": true, "Append": true, "Prepend": true}
				if mut[sel.Sel.Name] {
					w.emit("wr " + acc)
				} else {
					w.emit("rd " + acc)
				}
				for _, a := range x.Args {
					w.expr(a, false)
				}
				return
			}
			if exprString(sel.X) == "s" {
				for _, a := range x.Args {
					w.expr(a, false)
				}
				w.emit("call " + sel.Sel.Name)
				return
			}
		}
		w.expr(x.Fun, false)
		for _, a := range x.Args {
			w.expr(a, false)
		}
	case *ast.FuncLit:
		/* a closure that is not started with `go` here (e.g. passed as callback): walk inline */
		w.block(x.Body)
	case *ast.BinaryExpr:
		w.expr(x.X, false)
		w.expr(x.Y, false)
	case *ast.UnaryExpr:
		w.expr(x.X, false)
	case *ast.ParenExpr:
		w.expr(x.X, write)
	case *ast.IndexExpr:
		w.expr(x.X, write)
		w.expr(x.Index, false)
	case *ast.SliceExpr:
		w.expr(x.X, false)
	case *ast.TypeAssertExpr:
		w.expr(x.X, false)
	case *ast.StarExpr:
		w.expr(x.X, write)
	case *ast.CompositeLit:
		for _, el := range x.Elts {
			if kv, ok := el.(*ast.KeyValueExpr); ok {
				w.expr(kv.Value, false)
			} else {
				w.expr(el, false)
			}
		}
	case *ast.KeyValueExpr:
		w.expr(x.Value, false)
	}
}

func (w *walker) block(b *ast.BlockStmt) {
	if b == nil {
		return
	}
	for _, st := range b.List {
		w.stmt(st)
	}
}

func (w *walker) stmt(st ast.Stmt) {
	switch x := st.(type) {
	case *ast.ExprStmt:
		w.expr(x.X, false)
	case *ast.AssignStmt:
		for _, r := range x.Rhs {
			w.expr(r, false)
		}
		for i, l := range x.Lhs {
			if x.Tok == token.DEFINE {
				if id, ok := l.(*ast.Ident); ok && i < len(x.Rhs) && exprString(x.Rhs[i]) == "s.h.Current()" {
					w.pageVars[id.Name] = true
				}
				continue
			}
			w.expr(l, true)
			if x.Tok != token.ASSIGN {
				w.expr(l, false)
			}
		}
	case *ast.DeferStmt:
		if exprString(x.Call.Fun) == "s.m.Unlock" {
			w.emit("defer-unlock")
		} else {
			w.expr(x.Call, false)
		}
	case *ast.GoStmt:
		*w.goCount++
		name := fmt.Sprintf("%s.go%d", w.fnName, *w.goCount)
		w.emit("go " + name)
		if fl, ok := x.Call.Fun.(*ast.FuncLit); ok {
			saved := w.cur
			*w.skeletons = append(*w.skeletons, skeleton{name: name})
			idx := len(*w.skeletons) - 1
			w.cur = &(*w.skeletons)[idx]
			w.block(fl.Body)
			(*w.skeletons)[idx] = *w.cur
			w.cur = saved
		}
	case *ast.IfStmt:
		if x.Init != nil {
			w.stmt(x.Init)
		}
		w.expr(x.Cond, false)
		w.emit("if{")
		w.block(x.Body)
		if x.Else != nil {
			w.emit("}else{")
			switch e := x.Else.(type) {
			case *ast.BlockStmt:
				w.block(e)
			default:
				w.stmt(e)
			}
		}
		w.emit("}")
	case *ast.ForStmt:
		if x.Init != nil {
			w.stmt(x.Init)
		}
		w.expr(x.Cond, false)
		w.emit("loop{")
		w.block(x.Body)
		if x.Post != nil {
			w.stmt(x.Post)
		}
		w.emit("}")
	case *ast.RangeStmt:
		w.expr(x.X, false)
		w.emit("loop{")
		w.block(x.Body)
		w.emit("}")
	case *ast.SwitchStmt:
		if x.Init != nil {
			w.stmt(x.Init)
		}
		w.expr(x.Tag, false)
		w.emit("switch{")
		for _, c := range x.Body.List {
			cc := c.(*ast.CaseClause)
			w.emit("case{")
			for _, e := range cc.List {
				w.expr(e, false)
			}
			for _, s := range cc.Body {
				w.stmt(s)
			}
			w.emit("}")
		}
		w.emit("}")
	case *ast.TypeSwitchStmt:
		w.stmt(x.Assign)
		w.emit("switch{")
		for _, c := range x.Body.List {
			cc := c.(*ast.CaseClause)
			w.emit("case{")
			for _, s := range cc.Body {
				w.stmt(s)
			}
			w.emit("}")
		}
		w.emit("}")
	case *ast.BlockStmt:
		w.block(x)
	case *ast.ReturnStmt:
		for _, r := range x.Results {
			w.expr(r, false)
		}
		w.emit("return")
	case *ast.DeclStmt:
		if gd, ok := x.Decl.(*ast.GenDecl); ok {
			for _, sp := range gd.Specs {
				if vs, ok := sp.(*ast.ValueSpec); ok {
					for _, v := range vs.Values {
						w.expr(v, false)
					}
				}
			}
		}
	case *ast.IncDecStmt:
		w.expr(x.X, true)
	}
}

func uiSkeletons(f *ast.File) []skeleton {
	out := []skeleton{}
	for _, d := range f.Decls {
		fd, ok := d.(*ast.FuncDecl)
		if !ok || fd.Recv == nil || fd.Body == nil {
			continue
		}
		out = append(out, skeleton{name: fd.Name.Name})
		idx := len(out) - 1
		n := 0
		w := &walker{skeletons: &out, pageVars: map[string]bool{"page": true}, goCount: &n, fnName: fd.Name.Name}
		w.cur = &out[idx]
		w.block(fd.Body)
		out[idx] = *w.cur
	}
	return out
}

/* ---------- fan-outs (go literals inside pub and splicer) ---------- */

type fanout struct {
	fn     string
	writes []string
	waits  bool
}

func fanouts(f *ast.File, pkg string) []fanout {
	out := []fanout{}
	for _, d := range f.Decls {
		fd, ok := d.(*ast.FuncDecl)
		if !ok || fd.Body == nil {
			continue
		}
		writes := []string{}
		waits := false
		n := 0
		var visit func(nd ast.Node, inLoop bool)
		visit = func(nd ast.Node, inLoop bool) {
			ast.Inspect(nd, func(in ast.Node) bool {
				switch x := in.(type) {
				case *ast.ForStmt:
					visit(x.Body, true)
					return false
				case *ast.RangeStmt:
					visit(x.Body, true)
					return false
				case *ast.GoStmt:
					n++
					tag := fmt.Sprintf("go%d", n)
					if inLoop {
						tag += "*" // one instance per loop iteration
					}
					if fl, ok := x.Call.Fun.(*ast.FuncLit); ok {
						locals := map[string]bool{}
						ast.Inspect(fl.Body, func(q ast.Node) bool {
							switch d := q.(type) {
							case *ast.AssignStmt:
								if d.Tok == token.DEFINE {
									for _, l := range d.Lhs {
										locals[exprString(l)] = true
									}
								}
							case *ast.ValueSpec:
								for _, nm := range d.Names {
									locals[nm.Name] = true
								}
							}
							return true
						})
						ast.Inspect(fl.Body, func(q ast.Node) bool {
							if as, ok := q.(*ast.AssignStmt); ok && as.Tok == token.ASSIGN {
								for _, l := range as.Lhs {
									if !locals[exprString(l)] {
										writes = append(writes, tag+":"+exprString(l))
									}
								}
							}
							return true
						})
					}
					return false
				case *ast.CallExpr:
					if exprString(x.Fun) == "wg.Wait" {
						waits = true
					}
				}
				return true
			})
		}
		visit(fd.Body, false)
		if n > 0 {
			out = append(out, fanout{fn: pkg + "." + fd.Name.Name, writes: writes, waits: waits})
		}
	}
	return out
}

func main() {
	if len(os.Args) < 2 {
		fmt.Fprintln(os.Stderr, "usage: extract <repo-root>")
		os.Exit(2)
	}
	root := os.Args[1]
	if len(os.Args) > 3 && os.Args[2] == "gocode" {
		fmt.Print(goCode(root, os.Args[3]))
		return
	}
	var b strings.Builder
	b.WriteString("/- GENERATED by extract/ from the current source tree on every run. Do not edit. -/\n\nnamespace Generated\n\n")

	/* imports per file among the sensitive packages */
	sensitive := map[string]bool{"net": true, "net/http": true, "crypto/tls": true, "os/exec": true, "os": true, "syscall": true, "unsafe": true}
	b.WriteString("/-- per source file: which of net, net/http, crypto/tls, os/exec, os, syscall, unsafe it imports -/\ndef sensitiveImports : List (String × List String) := [\n")
	files := goFiles(root)
	first := true
	for _, rel := range files {
		f := parseFile(root, rel)
		imps := []string{}
		for _, im := range f.Imports {
			p, _ := strconv.Unquote(im.Path.Value)
			if sensitive[p] {
				imps = append(imps, p)
			}
		}
		sort.Strings(imps)
		if len(imps) > 0 {
			if !first {
				b.WriteString(",\n")
			}
			first = false
			b.WriteString("  (" + leanStr(rel) + ", " + leanList(imps) + ")")
		}
	}
	b.WriteString("]\n\n")

	/* jtp facts */
	jtp := parseFile(root, "jtp/jtp.go")
	statuses := []string{}
	writes := [][]string{}
	order := []string{} // order of dial / SetDeadline / Write / NewReader inside Get
	regexes := [][2]string{}
	ast.Inspect(jtp, func(n ast.Node) bool {
		switch x := n.(type) {
		case *ast.BinaryExpr:
			if x.Op == token.NEQ && exprString(x.X) == "status" {
				if lit, ok := x.Y.(*ast.BasicLit); ok {
					statuses = append(statuses, unquote(lit))
				}
			}
		case *ast.CallExpr:
			fn := exprString(x.Fun)
			switch {
			case strings.HasSuffix(fn, ".Write") && strings.HasPrefix(fn, "connection"):
				parts := []string{}
				if conv, ok := x.Args[0].(*ast.CallExpr); ok && len(conv.Args) == 1 {
					flattenConcat(conv.Args[0], &parts)
				} else {
					flattenConcat(x.Args[0], &parts)
				}
				writes = append(writes, parts)
				order = append(order, "write")
			case fn == "tls.DialWithDialer":
				order = append(order, "dial")
			case fn == "connection.SetDeadline":
				order = append(order, "setdeadline")
			case fn == "bufio.NewReader":
				order = append(order, "read")
			case fn == "regexp.MustCompile":
				if lit, ok := x.Args[0].(*ast.BasicLit); ok {
					regexes = append(regexes, [2]string{"", unquote(lit)})
				}
			}
		}
		return true
	})
	b.WriteString("/-- the literals `status` is compared against before a response is accepted -/\ndef okStatuses : List String := " + leanList(statuses) + "\n\n")
	b.WriteString(fmt.Sprintf("/-- how many times anything is written on a connection in jtp -/\ndef connectionWrites : Nat := %d\n\n", len(writes)))
	if len(writes) > 0 {
		b.WriteString("/-- the concatenation written by the only `connection.Write` (`@x` = the Go expression x) -/\ndef requestTemplate : List String := " + leanList(writes[0]) + "\n\n")
	} else {
		b.WriteString("def requestTemplate : List String := []\n\n")
	}
	b.WriteString("/-- order of dial / SetDeadline / Write / first read inside jtp -/\ndef connectionOrder : List String := " + leanList(order) + "\n\n")
	rx := []string{}
	for _, r := range regexes {
		rx = append(rx, r[1])
	}
	b.WriteString("/-- the regular expressions compiled in jtp -/\ndef jtpRegexes : List String := " + leanList(rx) + "\n\n")

	/* client: MAX_REDIRECTS */
	client := parseFile(root, "client/client.go")
	maxRedirects := ""
	ast.Inspect(client, func(n ast.Node) bool {
		if vs, ok := n.(*ast.ValueSpec); ok && len(vs.Names) == 1 && vs.Names[0].Name == "MAX_REDIRECTS" {
			if lit, ok := vs.Values[0].(*ast.BasicLit); ok {
				maxRedirects = lit.Value
			}
		}
		return true
	})
	b.WriteString("def maxRedirects : Nat := " + orZero(maxRedirects) + "\n\n")

	/* collection: the emptyCount threshold */
	coll := parseFile(root, "pub/collection.go")
	threshold := ""
	ast.Inspect(coll, func(n ast.Node) bool {
		if be, ok := n.(*ast.BinaryExpr); ok && be.Op == token.GTR && exprString(be.X) == "emptyCount" {
			if lit, ok := be.Y.(*ast.BasicLit); ok {
				threshold = lit.Value
			}
		}
		return true
	})
	b.WriteString("def emptyThreshold : Nat := " + orZero(threshold) + "\n\n")

	/* style: the SGR literals handed to ansi.Apply */
	style := parseFile(root, "style/style.go")
	sgr := []string{}
	ast.Inspect(style, func(n ast.Node) bool {
		if ce, ok := n.(*ast.CallExpr); ok && exprString(ce.Fun) == "ansi.Apply" && len(ce.Args) == 2 {
			parts := []string{}
			flattenConcat(ce.Args[1], &parts)
			sgr = append(sgr, strings.Join(parts, ""))
		}
		if as, ok := n.(*ast.AssignStmt); ok && len(as.Lhs) == 1 && exprString(as.Lhs[0]) == "prefix" {
			parts := []string{}
			flattenConcat(as.Rhs[0], &parts)
			sgr = append(sgr, "prefix="+strings.Join(parts, ""))
		}
		return true
	})
	b.WriteString("/-- second arguments of ansi.Apply in package style (and what `prefix` is built from) -/\ndef sgrArguments : List String := " + leanList(sgr) + "\n\n")

	/* config defaults */
	config := parseFile(root, "config/config.go")
	defaults := []string{}
	ast.Inspect(config, func(n ast.Node) bool {
		if fd, ok := n.(*ast.FuncDecl); ok && fd.Name.Name == "parse" {
			for _, st := range fd.Body.List {
				if as, ok := st.(*ast.AssignStmt); ok && len(as.Lhs) == 1 && strings.HasPrefix(exprString(as.Lhs[0]), "config.") {
					switch v := as.Rhs[0].(type) {
					case *ast.BasicLit:
						if v.Kind == token.STRING {
							defaults = append(defaults, exprString(as.Lhs[0])+"="+unquote(v))
						} else {
							defaults = append(defaults, exprString(as.Lhs[0])+"="+v.Value)
						}
					case *ast.CompositeLit:
						els := []string{}
						for _, e := range v.Elts {
							if lit, ok := e.(*ast.BasicLit); ok {
								els = append(els, unquote(lit))
							}
						}
						defaults = append(defaults, exprString(as.Lhs[0])+"=["+strings.Join(els, ",")+"]")
					}
				}
			}
		}
		return true
	})
	b.WriteString("/-- the built-in defaults assigned in config.parse -/\ndef configDefaults : List String := " + leanList(defaults) + "\n\n")

	/* ui: exec.Command shape, and the skeletons */
	uif := parseFile(root, "ui/ui.go")
	execCalls := []string{}
	outputArgs := []string{}
	ast.Inspect(uif, func(n ast.Node) bool {
		if ce, ok := n.(*ast.CallExpr); ok {
			if exprString(ce.Fun) == "exec.Command" {
				args := []string{}
				for _, a := range ce.Args {
					args = append(args, exprString(a))
				}
				if ce.Ellipsis != token.NoPos {
					args[len(args)-1] += "..."
				}
				execCalls = append(execCalls, strings.Join(args, ", "))
			}
			if exprString(ce.Fun) == "s.output" && len(ce.Args) == 1 {
				outputArgs = append(outputArgs, exprString(ce.Args[0]))
			}
		}
		return true
	})
	b.WriteString("/-- argument lists of every exec.Command call -/\ndef execCommands : List String := " + leanList(execCalls) + "\n\n")
	b.WriteString("/-- the argument of every s.output(...) call -/\ndef outputArguments : List String := " + leanList(outputArgs) + "\n\n")
	b.WriteString("/-- per method / goroutine literal of ui/ui.go: locks, accesses to State and Page fields, frames, calls, in source order -/\ndef uiSkeleton : List (String × List String) := [\n")
	sk := uiSkeletons(uif)
	for i, s := range sk {
		if i > 0 {
			b.WriteString(",\n")
		}
		b.WriteString("  (" + leanStr(s.name) + ", " + leanList(s.events) + ")")
	}
	b.WriteString("]\n\n")

	/* fan-outs */
	b.WriteString("/-- per function with goroutine literals in pub and splicer: what each literal assigns to, and whether the function waits -/\ndef fanouts : List (String × List String × Bool) := [\n")
	fo := []fanout{}
	for _, rel := range files {
		if strings.HasPrefix(rel, "pub/") || strings.HasPrefix(rel, "splicer/") {
			fo = append(fo, fanouts(parseFile(root, rel), strings.TrimSuffix(rel, ".go"))...)
		}
	}
	for i, f := range fo {
		if i > 0 {
			b.WriteString(",\n")
		}
		b.WriteString(fmt.Sprintf("  (%s, %s, %v)", leanStr(f.fn), leanList(f.writes), f.waits))
	}
	b.WriteString("]\n\n")

	/* the key dispatch of ui.State.Update: per case of `switch input`, the keys and, in source
	   order, the methods called and the dynamic types asked for; plus the special key constants
	   and the pre-dispatch comparisons of `input` */
	b.WriteString("/-- per case of `switch input` in ui.State.Update: keys, then the calls and type assertions of its body in source order -/\ndef keymap : List (List String × List String) := [\n")
	km := keymap(uif)
	for i, k := range km {
		if i > 0 {
			b.WriteString(",\n")
		}
		b.WriteString("  (" + leanList(k.keys) + ", " + leanList(k.calls) + ")")
	}
	b.WriteString("]\n\n")
	b.WriteString("/-- the integer constants declared in ui/ui.go (name=value) -/\ndef uiConstants : List String := " + leanList(uiConstants(uif)) + "\n\n")
	b.WriteString("/-- every comparison of `input` with something in ui.State.Update outside the final switch, in source order -/\ndef inputTests : List String := " + leanList(inputTests(uif)) + "\n\n")
	/* the substitution loop of ui.openExternally */
	hs, hg := hookSubstitutions(uif)
	b.WriteString("/-- per case of `switch field` in ui.openExternally: the literal, then every assignment of the case as `target=value` -/\ndef hookSubstitutions : List (String × List String) := [\n")
	for i, h := range hs {
		if i > 0 {
			b.WriteString(",\n")
		}
		b.WriteString("  (" + leanStr(h.keys[0]) + ", " + leanList(h.calls) + ")")
	}
	b.WriteString("]\n\n")
	b.WriteString("/-- the loop around it: what is ranged over, the guard that skips an index, how `command` is made, what the stdin condition is -/\ndef hookLoop : List String := " + leanList(hg) + "\n\n")
	/* how jtp reads from the connection */
	b.WriteString("/-- every method called on a *bufio.Reader variable in jtp/jtp.go, with its arguments, and what the JSON decoder is built on, in source order -/\ndef jtpReads : List String := " + leanList(jtpReads(parseFile(root, "jtp/jtp.go"))) + "\n\n")
	/* how the TLS connection is made, and whether the accessors ever write to the document */
	b.WriteString("/-- the arguments of every tls.Dial* call in jtp/jtp.go (a nil config: Go's defaults, no client session cache, no client certificate) -/\ndef tlsDialArgs : List String := " + leanList(tlsDialArgs(parseFile(root, "jtp/jtp.go"))) + "\n\n")
	b.WriteString(fmt.Sprintf("/-- assignments through an index expression (`m[k] = v`, `m[k] += v`, …) and delete() calls in object/object.go -/\ndef objectMapWrites : Nat := %d\n\n", mapWrites(parseFile(root, "object/object.go"))))
	/* the media type grammar of package mime */
	b.WriteString("/-- every regular expression compiled in mime/mime.go (concatenations joined, string constants of the file resolved) -/\ndef mimeRegexes : List String := " + leanList(compiledRegexes(parseFile(root, "mime/mime.go"))) + "\n\n")
	/* Splicer.Harvest works on a clone */
	b.WriteString("/-- the statements of Splicer.Harvest up to and including the call of replenish -/\ndef splicerHarvestHead : List String := " + leanList(splicerHead(parseFile(root, "splicer/splicer.go"))) + "\n\n")
	/* the decision skeleton of config.postprocess */
	b.WriteString("/-- every top-level statement of config.postprocess, in order: conversions, rejections (with the key named in the message), early acceptance, anything else -/\ndef postprocessSkeleton : List String := " + leanList(postprocessSkeleton(parseFile(root, "config/config.go"))) + "\n\n")
	b.WriteString("end Generated\n")
	fmt.Print(b.String())
}

var keyInMessage = regexp.MustCompile(`key ([a-z_.]+) is invalid`)

func postprocessSkeleton(f *ast.File) []string {
	out := []string{}
	for _, d := range f.Decls {
		fd, ok := d.(*ast.FuncDecl)
		if !ok || fd.Name.Name != "postprocess" {
			continue
		}
		describeReturn := func(rs *ast.ReturnStmt) string {
			if len(rs.Results) == 1 {
				if id, ok := rs.Results[0].(*ast.Ident); ok && id.Name == "nil" {
					return "accept"
				}
				msg := ""
				ast.Inspect(rs.Results[0], func(n ast.Node) bool {
					if bl, ok := n.(*ast.BasicLit); ok && msg == "" {
						if m := keyInMessage.FindStringSubmatch(bl.Value); m != nil {
							msg = m[1]
						}
					}
					return true
				})
				return "reject " + msg
			}
			return "return?"
		}
		for _, st := range fd.Body.List {
			switch x := st.(type) {
			case *ast.DeclStmt:
				out = append(out, "declare")
			case *ast.AssignStmt:
				desc := []string{}
				for _, l := range x.Lhs {
					desc = append(desc, exprString(l))
				}
				rhs := []string{}
				for _, r := range x.Rhs {
					rhs = append(rhs, exprFull(r))
				}
				out = append(out, strings.Join(desc, ",")+x.Tok.String()+strings.Join(rhs, ","))
			case *ast.IfStmt:
				body := []string{}
				for _, b := range x.Body.List {
					if rs, ok := b.(*ast.ReturnStmt); ok {
						body = append(body, describeReturn(rs))
					} else {
						body = append(body, "<stmt>")
					}
				}
				els := ""
				if x.Else != nil {
					els = " else <...>"
				}
				out = append(out, "if "+exprFull(x.Cond)+" { "+strings.Join(body, "; ")+" }"+els)
			case *ast.ReturnStmt:
				out = append(out, describeReturn(x))
			default:
				out = append(out, fmt.Sprintf("<%T>", st))
			}
		}
	}
	return out
}

func hookSubstitutions(f *ast.File) ([]keyCase, []string) {
	out := []keyCase{}
	guards := []string{}
	for _, d := range f.Decls {
		fd, ok := d.(*ast.FuncDecl)
		if !ok || fd.Name.Name != "openExternally" {
			continue
		}
		ast.Inspect(fd.Body, func(n ast.Node) bool {
			switch x := n.(type) {
			case *ast.AssignStmt:
				if len(x.Lhs) == 1 && len(x.Rhs) == 1 {
					if id, ok := x.Lhs[0].(*ast.Ident); ok && (id.Name == "command" || id.Name == "foundPercentU") && x.Tok.String() == ":=" {
						guards = append(guards, id.Name+":="+exprFull(x.Rhs[0]))
					}
				}
			case *ast.ExprStmt:
				if ce, ok := x.X.(*ast.CallExpr); ok {
					if id, ok := ce.Fun.(*ast.Ident); ok && id.Name == "copy" {
						guards = append(guards, "copy("+exprFull(ce.Args[0])+", "+exprFull(ce.Args[1])+")")
					}
				}
			case *ast.RangeStmt:
				guards = append(guards, "range "+exprString(x.Key)+", "+exprString(x.Value)+" := "+exprString(x.X))
				for _, st := range x.Body.List {
					if is, ok := st.(*ast.IfStmt); ok {
						body := []string{}
						for _, b := range is.Body.List {
							if br, ok := b.(*ast.BranchStmt); ok {
								body = append(body, br.Tok.String())
							} else {
								body = append(body, "<stmt>")
							}
						}
						guards = append(guards, "if "+exprString(is.Cond)+" { "+strings.Join(body, "; ")+" }")
					}
				}
			case *ast.IfStmt:
				if ue, ok := x.Cond.(*ast.UnaryExpr); ok {
					if id, ok := ue.X.(*ast.Ident); ok && id.Name == "foundPercentU" {
						for _, b := range x.Body.List {
							if as, ok := b.(*ast.AssignStmt); ok {
								guards = append(guards, "if "+exprString(x.Cond)+" { "+exprString(as.Lhs[0])+"="+exprFull(as.Rhs[0])+" }")
							}
						}
					}
				}
			case *ast.SwitchStmt:
				if id, ok := x.Tag.(*ast.Ident); ok && id.Name == "field" {
					for _, st := range x.Body.List {
						cc := st.(*ast.CaseClause)
						kc := keyCase{keys: []string{}, calls: []string{}}
						for _, e := range cc.List {
							if bl, ok := e.(*ast.BasicLit); ok {
								kc.keys = append(kc.keys, unquote(bl))
							} else {
								kc.keys = append(kc.keys, exprString(e))
							}
						}
						if len(kc.keys) != 1 {
							kc.keys = []string{strings.Join(kc.keys, "|") + "(default or multi)"}
						}
						for _, b := range cc.Body {
							if as, ok := b.(*ast.AssignStmt); ok && len(as.Lhs) == 1 {
								kc.calls = append(kc.calls, exprString(as.Lhs[0])+as.Tok.String()+exprFull(as.Rhs[0]))
							} else {
								kc.calls = append(kc.calls, "<stmt>")
							}
						}
						out = append(out, kc)
					}
				}
			}
			return true
		})
	}
	return out, guards
}

/* exprString with call arguments spelled out */
func exprFull(e ast.Expr) string {
	if ce, ok := e.(*ast.CallExpr); ok {
		args := []string{}
		for _, a := range ce.Args {
			args = append(args, exprFull(a))
		}
		return exprString(ce.Fun) + "(" + strings.Join(args, ", ") + ")"
	}
	if at, ok := e.(*ast.ArrayType); ok {
		return "[]" + exprString(at.Elt)
	}
	if be, ok := e.(*ast.BinaryExpr); ok {
		return exprFull(be.X) + be.Op.String() + exprFull(be.Y)
	}
	if ue, ok := e.(*ast.UnaryExpr); ok {
		return ue.Op.String() + exprFull(ue.X)
	}
	if pe, ok := e.(*ast.ParenExpr); ok {
		return "(" + exprFull(pe.X) + ")"
	}
	return exprString(e)
}

type keyCase struct {
	keys  []string
	calls []string
}

func updateDecl(f *ast.File) *ast.FuncDecl {
	for _, d := range f.Decls {
		if fd, ok := d.(*ast.FuncDecl); ok && fd.Name.Name == "Update" && fd.Recv != nil {
			return fd
		}
	}
	return nil
}

func inputSwitch(fd *ast.FuncDecl) *ast.SwitchStmt {
	var last *ast.SwitchStmt
	if fd == nil {
		return nil
	}
	ast.Inspect(fd.Body, func(n ast.Node) bool {
		if sw, ok := n.(*ast.SwitchStmt); ok {
			if id, ok := sw.Tag.(*ast.Ident); ok && id.Name == "input" {
				last = sw
			}
		}
		return true
	})
	return last
}

func keymap(f *ast.File) []keyCase {
	out := []keyCase{}
	sw := inputSwitch(updateDecl(f))
	if sw == nil {
		return out
	}
	for _, st := range sw.Body.List {
		cc, ok := st.(*ast.CaseClause)
		if !ok {
			continue
		}
		kc := keyCase{keys: []string{}, calls: []string{}}
		for _, e := range cc.List {
			kc.keys = append(kc.keys, exprString(e))
		}
		if cc.List == nil {
			kc.keys = append(kc.keys, "default")
		}
		for _, body := range cc.Body {
			ast.Inspect(body, func(n ast.Node) bool {
				switch x := n.(type) {
				case *ast.CallExpr:
					switch fn := x.Fun.(type) {
					case *ast.SelectorExpr:
						kc.calls = append(kc.calls, fn.Sel.Name)
					case *ast.Ident:
						kc.calls = append(kc.calls, fn.Name)
					}
				case *ast.TypeAssertExpr:
					if x.Type != nil {
						kc.calls = append(kc.calls, "as "+exprString(x.Type))
					}
				}
				return true
			})
		}
		out = append(out, kc)
	}
	return out
}

func uiConstants(f *ast.File) []string {
	out := []string{}
	for _, d := range f.Decls {
		gd, ok := d.(*ast.GenDecl)
		if !ok || gd.Tok.String() != "const" {
			continue
		}
		for _, sp := range gd.Specs {
			vs, ok := sp.(*ast.ValueSpec)
			if !ok {
				continue
			}
			for i, n := range vs.Names {
				if i < len(vs.Values) {
					if lit, ok := vs.Values[i].(*ast.BasicLit); ok {
						out = append(out, n.Name+"="+lit.Value)
					}
				}
			}
		}
	}
	return out
}

func inputTests(f *ast.File) []string {
	out := []string{}
	fd := updateDecl(f)
	if fd == nil {
		return out
	}
	sw := inputSwitch(fd)
	ast.Inspect(fd.Body, func(n ast.Node) bool {
		if n == ast.Node(sw) && sw != nil {
			return false
		}
		if be, ok := n.(*ast.BinaryExpr); ok {
			if id, ok := be.X.(*ast.Ident); ok && id.Name == "input" {
				out = append(out, exprString(be))
			}
		}
		return true
	})
	return out
}

func orZero(s string) string {
	if s == "" {
		return "0"
	}
	return s
}

func jtpReads(f *ast.File) []string {
	out := []string{}
	ast.Inspect(f, func(n ast.Node) bool {
		ce, ok := n.(*ast.CallExpr)
		if !ok {
			return true
		}
		if se, ok := ce.Fun.(*ast.SelectorExpr); ok {
			if id, ok := se.X.(*ast.Ident); ok {
				if id.Name == "buf" {
					out = append(out, exprFull(ce))
				}
				if id.Name == "bufio" || (id.Name == "json" && se.Sel.Name == "NewDecoder") {
					out = append(out, exprFull(ce))
				}
			}
		}
		return true
	})
	return out
}

func tlsDialArgs(f *ast.File) []string {
	out := []string{}
	ast.Inspect(f, func(n ast.Node) bool {
		if ce, ok := n.(*ast.CallExpr); ok {
			if se, ok := ce.Fun.(*ast.SelectorExpr); ok {
				if id, ok := se.X.(*ast.Ident); ok && id.Name == "tls" && strings.HasPrefix(se.Sel.Name, "Dial") {
					args := []string{}
					for _, a := range ce.Args {
						args = append(args, exprFull(a))
					}
					out = append(out, se.Sel.Name+"("+strings.Join(args, ", ")+")")
				}
			}
		}
		return true
	})
	return out
}

func mapWrites(f *ast.File) int {
	n := 0
	ast.Inspect(f, func(nd ast.Node) bool {
		switch x := nd.(type) {
		case *ast.AssignStmt:
			for _, l := range x.Lhs {
				if _, ok := l.(*ast.IndexExpr); ok {
					n++
				}
			}
		case *ast.IncDecStmt:
			if _, ok := x.X.(*ast.IndexExpr); ok {
				n++
			}
		case *ast.CallExpr:
			if id, ok := x.Fun.(*ast.Ident); ok && id.Name == "delete" {
				n++
			}
		}
		return true
	})
	return n
}

func splicerHead(f *ast.File) []string {
	out := []string{}
	for _, d := range f.Decls {
		fd, ok := d.(*ast.FuncDecl)
		if !ok || fd.Name.Name != "Harvest" || fd.Recv == nil {
			continue
		}
		for _, st := range fd.Body.List {
			desc := fmt.Sprintf("<%T>", st)
			switch x := st.(type) {
			case *ast.AssignStmt:
				l := []string{}
				for _, e := range x.Lhs {
					l = append(l, exprString(e))
				}
				r := []string{}
				for _, e := range x.Rhs {
					r = append(r, exprFull(e))
				}
				desc = strings.Join(l, ",") + x.Tok.String() + strings.Join(r, ",")
			case *ast.ExprStmt:
				desc = exprFull(x.X)
			}
			out = append(out, desc)
			if strings.Contains(desc, "replenish") {
				break
			}
		}
	}
	return out
}

func compiledRegexes(f *ast.File) []string {
	consts := map[string]string{}
	for _, d := range f.Decls {
		gd, ok := d.(*ast.GenDecl)
		if !ok || (gd.Tok != token.CONST && gd.Tok != token.VAR) {
			continue
		}
		for _, sp := range gd.Specs {
			vs, ok := sp.(*ast.ValueSpec)
			if !ok {
				continue
			}
			for i, n := range vs.Names {
				if i < len(vs.Values) {
					if bl, ok := vs.Values[i].(*ast.BasicLit); ok && bl.Kind == token.STRING {
						consts[n.Name] = unquote(bl)
					}
				}
			}
		}
	}
	out := []string{}
	ast.Inspect(f, func(n ast.Node) bool {
		ce, ok := n.(*ast.CallExpr)
		if !ok || len(ce.Args) != 1 {
			return true
		}
		if name := exprString(ce.Fun); name == "regexp.MustCompile" || name == "regexp.Compile" || name == "regexp.MustCompilePOSIX" {
			parts := []string{}
			flattenConcat(ce.Args[0], &parts)
			joined := ""
			for _, p := range parts {
				if strings.HasPrefix(p, "@") {
					if v, ok := consts[p[1:]]; ok {
						joined += v
						continue
					}
				}
				joined += p
			}
			out = append(out, joined)
		}
		return true
	})
	return out
}
