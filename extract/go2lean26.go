package main

/*
go2lean, twenty-sixth front end: the navigation methods of the items of package pub —
pub/post.go `Children`, `Parents`, `ParentIdentifier`, `Creators`, `Recipients`, `Timestamp`;
pub/actor.go `Parents`, `Children`, `Identifier`, `Timestamp`; pub/activity.go `Parents`,
`Children`, `Actor`, `ActorIdentifier`, `Target`, `Timestamp`; pub/failure.go `Parents`,
`Children`, `Timestamp`; pub/user-input.go `FetchUserInput` — translated statement by statement
into `Generated/GoNavigate.lean`, namespace `GenNavigate`.

  records      a `*Post`, `*Actor`, `*Activity` is the record of the model the translated
               constructors build (`Pub.PostM`, `Pub.ActorM`, `Pub.ActivityM`, unit newitem). The
               table `n26Records` says which Go fields a record field keeps: a plain field, or a
               pair (value fields + error field) kept as one `Except`: the value fields are
               readable only where the error is nil, the error only where it is not, a pointer
               value field is nil exactly where the error is not. A Go field that is not in the
               table or not declared in the struct is refused.
  pairs        the first statement that looks at a pair whose state is not known is translated
               under `match p.x with | .error e => … | .ok v => …`, the statements from there on
               once per state; a test of the error (or of a pointer value field) against nil is
               decided there, never emitted; `errors.Is(p.xErr, object.ErrKeyNotPresent)` is
               false under `.ok` and `Go.Error.is (Go.Error.ofObj e) .keyNotPresent` under `.error`.
  uint         a `uint` parameter is a `Nat`. `x == k` is a dependent `if h : x = k`; `x - 1` is
               accepted only where a test `x == 0` that returns dominates it (elsewhere it would
               wrap); the recursion is well-founded on the parameter and Lean checks that the
               argument decreases (`decreasing_by omega` with the tests in scope).
  interfaces   `Tangible` results are `GenListing.Tangible` (a `*T` is injected with the
               constructor of its type, `nil` is `none`: the frontier is `Option Tangible`);
               `Container` is `Option Pub.CollM`; a result that is always a field of the record
               has the type the record keeps (`List Pub.AorF`, `Pub.Target`). A method called
               on the `Tangible` an activity holds (`a.target.M(…)`) is the dispatch
               `Target.M` over what the record distinguishes: post, actor, failure; the
               failure's method must not use its receiver.
  constructors `NewPostFromObject`, `New` are the translated ones (`GenNewitem`), `NewFailure(e)`
               is `Failure.mk e` and is accepted only where `e` is known not to be nil (it
               panics otherwise). `client.ResolveWebfinger`, `client.FetchFromFile` are fields of
               `Ext`; their result types are read from client/client.go: a `string` handed to
               `New` is `JVal.str`, a `map[string]any` is `JVal.obj`, an `object.Object` (a named
               type: the type switch of `FetchUnknown` does not take it for a `map[string]any`)
               is `Go.anyOfObject`.
  strings      `strings.HasPrefix(v, lit)`; `v[k:]` only inside an `if` whose condition is a
               disjunction of `HasPrefix(v, lit)` with ASCII literals of exactly k bytes (there
               bytes and code points agree).

Everything else emits `sorry_untranslatable`, an unknown identifier: the generated file no
longer builds.
*/

import (
	"fmt"
	"go/ast"
	"go/token"
	"os"
	"path/filepath"
	"sort"
	"strconv"
	"strings"
)

type n26pair struct {
	name    string   // field of the model's record
	vals    []string // Go value fields
	vtypes  []string // their Lean types
	ptr     bool     // the (single) value field is a pointer
	err     string   // Go error field
	errType string   // what the record keeps of the error: "Obj.Err" or "Unit"
}

type n26rec struct {
	lean  string
	pairs []n26pair
	plain map[string]string // Go field -> Lean type
}

var n26Records = map[string]n26rec{
	"Post": {lean: "Pub.PostM", pairs: []n26pair{
		{"parent", []string{"parentObject", "parentIdentifier"}, []string{"Pub.O", "Option Pub.U"}, false, "parentErr", "Obj.Err"},
		{"comments", []string{"comments"}, []string{"Pub.CollM"}, true, "commentsErr", "Obj.Err"},
		{"created", []string{"created"}, []string{"Int"}, false, "createdErr", "Obj.Err"},
		{"title", []string{"title"}, []string{"Str"}, false, "titleErr", "Obj.Err"},
	}, plain: map[string]string{"id": "Option Pub.U", "kind": "Str", "creators": "List Pub.AorF", "recipients": "List Pub.AorF"}},
	"Actor": {lean: "Pub.ActorM", pairs: []n26pair{
		{"posts", []string{"posts"}, []string{"Pub.CollM"}, true, "postsErr", "Obj.Err"},
		{"joined", []string{"joined"}, []string{"Int"}, false, "joinedErr", "Obj.Err"},
		{"name", []string{"name"}, []string{"Str"}, false, "nameErr", "Obj.Err"},
	}, plain: map[string]string{"id": "Option Pub.U", "kind": "Str"}},
	"Activity": {lean: "Pub.ActivityM", pairs: []n26pair{
		{"actor", []string{"actor"}, []string{"Pub.ActorM"}, true, "actorErr", "Unit"},
		{"created", []string{"created"}, []string{"Int"}, false, "createdErr", "Obj.Err"},
	}, plain: map[string]string{"id": "Option Pub.U", "kind": "Str", "target": "Pub.Target"}},
	"Failure": {lean: "Failure", plain: map[string]string{"message": "Go.Error"}},
}

var n26TypeOfLean = map[string]string{"Pub.PostM": "Post", "Pub.ActorM": "Actor", "Pub.ActivityM": "Activity", "Failure": "Failure", "Pub.Target": "Target"}
var n26Inject = map[string]string{"Pub.PostM": "post", "Pub.ActorM": "actor", "Pub.ActivityM": "activity", "Failure": "failure"}

type n26var struct{ lean, typ string }

type n26env struct {
	vars      map[string]n26var
	recv      string
	recvType  string
	state     map[string]string // pair name -> "ok" / "err"
	nonzero   map[string]bool
	prefixLen map[string]int
}

func (e *n26env) clone() *n26env {
	c := &n26env{vars: map[string]n26var{}, recv: e.recv, recvType: e.recvType, state: map[string]string{}, nonzero: map[string]bool{}, prefixLen: map[string]int{}}
	for k, v := range e.vars {
		c.vars[k] = v
	}
	for k, v := range e.state {
		c.state[k] = v
	}
	for k, v := range e.nonzero {
		c.nonzero[k] = v
	}
	for k, v := range e.prefixLen {
		c.prefixLen[k] = v
	}
	return c
}

type n26fn struct {
	key      string // "Post.Parents", "FetchUserInput"
	recvType string
	decl     *ast.FuncDecl
	eff      bool
	resType  string
	usesRecv bool
	params   []string
	ptypes   []string
}

type n26 struct {
	fns     map[string]*n26fn
	structs map[string]*ast.StructType
	extSigs map[string]string // client function -> Lean type of its value result
	b       *strings.Builder
	errs    []string
	cur     *n26fn
	hyp     int
	targetM map[string]bool // methods dispatched over Pub.Target
}

func (g *n26) bad(format string, a ...any) string {
	msg := fmt.Sprintf(format, a...)
	name := "?"
	if g.cur != nil {
		name = g.cur.key
	}
	g.errs = append(g.errs, name+": "+msg)
	return "sorry_untranslatable"
}

func (g *n26) line(ind int, s string) { g.b.WriteString(strings.Repeat("  ", ind) + s + "\n") }

func (g *n26) pos(n ast.Node) string { return fset.Position(n.Pos()).String() }

/* ---------- fields ---------- */

// field of the receiver: (pair, index of value field or -1 for the error field) or plain type
func (g *n26) field(env *n26env, e ast.Expr) (*n26pair, int, string, bool) {
	sel, ok := e.(*ast.SelectorExpr)
	if !ok {
		return nil, 0, "", false
	}
	id, ok := sel.X.(*ast.Ident)
	if !ok || id.Name != env.recv || env.recv == "" {
		return nil, 0, "", false
	}
	rec, ok := n26Records[env.recvType]
	if !ok {
		return nil, 0, "", false
	}
	st := g.structs[env.recvType]
	declared := false
	if st != nil {
		for _, f := range st.Fields.List {
			for _, n := range f.Names {
				if n.Name == sel.Sel.Name {
					declared = true
				}
			}
		}
	}
	if !declared {
		return nil, 0, "", false
	}
	for i := range rec.pairs {
		p := &rec.pairs[i]
		if p.err == sel.Sel.Name {
			return p, -1, "", true
		}
		for j, v := range p.vals {
			if v == sel.Sel.Name {
				return p, j, "", true
			}
		}
	}
	if t, ok := rec.plain[sel.Sel.Name]; ok {
		return nil, 0, t, true
	}
	return nil, 0, "", false
}

// the pairs of unknown state an expression looks at
func (g *n26) unknownPairs(env *n26env, nodes ...ast.Node) []*n26pair {
	var out []*n26pair
	seen := map[string]bool{}
	for _, n := range nodes {
		if n == nil {
			continue
		}
		ast.Inspect(n, func(x ast.Node) bool {
			if _, isLit := x.(*ast.FuncLit); isLit {
				return false
			}
			if sel, ok := x.(*ast.SelectorExpr); ok {
				if p, _, _, ok := g.field(env, sel); ok && p != nil && env.state[p.name] == "" && !seen[p.name] {
					seen[p.name] = true
					out = append(out, p)
				}
			}
			return true
		})
	}
	return out
}

func (g *n26) valName(env *n26env, p *n26pair, j int) string { return env.recv + "_" + p.vals[j] }
func (g *n26) errName(env *n26env, p *n26pair) string        { return env.recv + "_" + p.err }

/* ---------- expressions ---------- */

func (g *n26) conv(term, from, to string) string {
	if from == to {
		return term
	}
	if to == "Tangible" {
		if c, ok := n26Inject[from]; ok {
			return "(Tangible." + c + " " + term + ")"
		}
	}
	if to == "Any" {
		if c, ok := n26Inject[from]; ok {
			return "(Any." + c + " " + term + ")"
		}
	}
	if strings.HasPrefix(to, "Option ") && !strings.HasPrefix(from, "Option ") {
		inner := g.conv(term, from, strings.TrimPrefix(to, "Option "))
		if inner != "sorry_untranslatable" {
			return "(some " + inner + ")"
		}
		return inner
	}
	return g.bad("a %s where a %s is expected (%s)", from, to, term)
}

func n26isNil(e ast.Expr) bool {
	id, ok := e.(*ast.Ident)
	return ok && id.Name == "nil"
}

func n26strLit(e ast.Expr) (string, bool) {
	if bl, ok := e.(*ast.BasicLit); ok && bl.Kind == token.STRING {
		s, err := strconv.Unquote(bl.Value)
		return s, err == nil
	}
	return "", false
}

// a non-nil error: (term, true)
func (g *n26) errTerm(env *n26env, e ast.Expr) (string, bool) {
	if id, ok := e.(*ast.Ident); ok {
		if v, ok := env.vars[id.Name]; ok && v.typ == "Go.Error" {
			return v.lean, true
		}
	}
	if p, j, _, ok := g.field(env, e); ok && p != nil && j == -1 && env.state[p.name] == "err" {
		if p.errType == "Obj.Err" {
			return "(Go.Error.ofObj " + g.errName(env, p) + ")", true
		}
		return "(Go.Error.ofUnit " + g.errName(env, p) + ")", true
	}
	return "", false
}

// the static type of an expression, without emitting anything
func (g *n26) typeOf(env *n26env, e ast.Expr) string {
	switch x := e.(type) {
	case *ast.Ident:
		if v, ok := env.vars[x.Name]; ok {
			return v.typ
		}
		if x.Name == env.recv && env.recv != "" {
			return n26Records[env.recvType].lean
		}
	case *ast.SelectorExpr:
		if p, j, t, ok := g.field(env, x); ok {
			if p == nil {
				return t
			}
			if j >= 0 {
				return p.vtypes[j]
			}
			return "Go.Error"
		}
	}
	return ""
}

func (g *n26) expr(env *n26env, e ast.Expr, want string) string {
	switch x := e.(type) {
	case *ast.ParenExpr:
		return g.expr(env, x.X, want)
	case *ast.Ident:
		if x.Name == "nil" {
			if strings.HasPrefix(want, "Option ") {
				return "none"
			}
			return g.bad("nil where a %s is expected at %s", want, g.pos(e))
		}
		if v, ok := env.vars[x.Name]; ok {
			if v.typ == "Pub.O:named" && want == "JVal" {
				return "(Go.anyOfObject " + v.lean + ")"
			}
			if v.typ == "Pub.O" && want == "JVal" {
				return "(JVal.obj " + v.lean + ")"
			}
			if v.typ == "Str" && want == "JVal" {
				return "(JVal.str " + v.lean + ")"
			}
			return g.conv(v.lean, v.typ, want)
		}
		if x.Name == env.recv && env.recv != "" {
			g.cur.usesRecv = true
			return g.conv(env.recv, n26Records[env.recvType].lean, want)
		}
		return g.bad("identifier %s at %s", x.Name, g.pos(e))
	case *ast.BasicLit:
		if s, ok := n26strLit(x); ok && want == "Str" {
			return "(Go.str " + leanStr(s) + ")"
		}
		if x.Kind == token.INT && want == "Nat" {
			return x.Value
		}
		return g.bad("literal %s where a %s is expected", x.Value, want)
	case *ast.SelectorExpr:
		p, j, t, ok := g.field(env, x)
		if !ok {
			return g.bad("selector %s at %s", exprString(x), g.pos(e))
		}
		g.cur.usesRecv = true
		if p == nil {
			return g.conv(env.recv+"."+x.Sel.Name, t, want)
		}
		if j == -1 {
			if t, ok := g.errTerm(env, x); ok {
				return g.conv(t, "Go.Error", want)
			}
			return g.bad("%s is read where it may be nil (%s)", exprString(x), g.pos(e))
		}
		if env.state[p.name] != "ok" {
			return g.bad("%s is read where %s may be non-nil (%s)", exprString(x), p.err, g.pos(e))
		}
		return g.conv(g.valName(env, p, j), p.vtypes[j], want)
	case *ast.CompositeLit:
		ts := typeStr(x.Type)
		if ts == "[]Tangible" && want == "List Tangible" {
			parts := []string{}
			for _, el := range x.Elts {
				parts = append(parts, g.expr(env, el, "Tangible"))
			}
			return "[" + strings.Join(parts, ", ") + "]"
		}
		if ts == "time.Time" && len(x.Elts) == 0 && want == "Int" {
			return "Pub.zeroTime"
		}
		return g.bad("composite literal %s where a %s is expected", ts, want)
	case *ast.BinaryExpr:
		if x.Op == token.SUB && want == "Nat" {
			if id, ok := x.X.(*ast.Ident); ok {
				if bl, ok := x.Y.(*ast.BasicLit); ok && bl.Kind == token.INT && bl.Value == "1" {
					if v, ok := env.vars[id.Name]; ok && v.typ == "Nat" {
						if !env.nonzero[id.Name] {
							return g.bad("%s - 1 on a uint that may be 0 wraps (%s)", id.Name, g.pos(e))
						}
						return "(" + v.lean + " - 1)"
					}
				}
			}
		}
		return g.bad("operation %s at %s", x.Op.String(), g.pos(e))
	case *ast.SliceExpr:
		if id, ok := x.X.(*ast.Ident); ok && x.High == nil && x.Max == nil && x.Low != nil && want == "Str" {
			if bl, ok := x.Low.(*ast.BasicLit); ok && bl.Kind == token.INT {
				k, _ := strconv.Atoi(bl.Value)
				if v, ok := env.vars[id.Name]; ok && v.typ == "Str" {
					if n, ok := env.prefixLen[id.Name]; ok && n == k {
						return "(← Go.sliceFrom " + v.lean + " " + bl.Value + ")"
					}
					return g.bad("%s[%d:] outside a test for prefixes of %d ASCII bytes (%s)", id.Name, k, k, g.pos(e))
				}
			}
		}
		return g.bad("slice expression at %s", g.pos(e))
	case *ast.CallExpr:
		return g.call(env, x, want)
	}
	return g.bad("expression %T at %s", e, g.pos(e))
}

func (g *n26) call(env *n26env, c *ast.CallExpr, want string) string {
	fn := exprString(c.Fun)
	switch fn {
	case "append":
		if want != "List Tangible" || len(c.Args) != 2 {
			return g.bad("append at %s", g.pos(c))
		}
		a := g.expr(env, c.Args[0], "List Tangible")
		if c.Ellipsis != token.NoPos {
			return "(" + a + " ++ " + g.expr(env, c.Args[1], "List Tangible") + ")"
		}
		return "(" + a + " ++ [" + g.expr(env, c.Args[1], "Tangible") + "])"
	case "NewFailure":
		if len(c.Args) != 1 {
			return g.bad("NewFailure at %s", g.pos(c))
		}
		t, ok := g.errTerm(env, c.Args[0])
		if !ok {
			return g.bad("NewFailure(%s) where the error is not known to be non-nil: it would panic (%s)", exprString(c.Args[0]), g.pos(c))
		}
		if _, isSel := c.Args[0].(*ast.SelectorExpr); isSel {
			g.cur.usesRecv = true
		}
		return g.conv("(Failure.mk "+t+")", "Failure", want)
	case "New":
		if len(c.Args) != 2 {
			return g.bad("New at %s", g.pos(c))
		}
		return g.conv("(← GenNewitem.New L X "+g.expr(env, c.Args[0], "JVal")+" "+g.expr(env, c.Args[1], "Option Pub.U")+")", "Any", want)
	}
	if sel, ok := c.Fun.(*ast.SelectorExpr); ok {
		rt := g.typeOf(env, sel.X)
		tname, ok := n26TypeOfLean[rt]
		if ok {
			var callee *n26fn
			if tname == "Target" {
				for _, impl := range []string{"Post", "Actor", "Failure"} {
					if g.fns[impl+"."+sel.Sel.Name] == nil {
						return g.bad("%s.%s is not translated, %s dispatches to it (%s)", impl, sel.Sel.Name, exprString(c.Fun), g.pos(c))
					}
				}
				g.targetM[sel.Sel.Name] = true
				callee = g.fns["Post."+sel.Sel.Name]
			} else {
				callee = g.fns[tname+"."+sel.Sel.Name]
			}
			if callee == nil {
				return g.bad("method %s.%s is not translated (%s)", tname, sel.Sel.Name, g.pos(c))
			}
			if len(c.Args) != len(callee.params) {
				return g.bad("arguments of %s at %s", exprString(c.Fun), g.pos(c))
			}
			eff := callee.eff
			if tname == "Target" {
				eff = g.targetEff(sel.Sel.Name)
			}
			t := tname + "." + sel.Sel.Name
			if eff {
				t += " L X"
			}
			t += " " + g.expr(env, sel.X, rt)
			for i, a := range c.Args {
				t += " " + g.expr(env, a, callee.ptypes[i])
			}
			if eff {
				t = "(← " + t + ")"
			} else {
				t = "(" + t + ")"
			}
			return g.conv(t, callee.resType, want)
		}
	}
	return g.bad("call %s at %s", fn, g.pos(c))
}

func (g *n26) targetEff(m string) bool {
	for _, impl := range []string{"Post", "Actor", "Failure"} {
		if f := g.fns[impl+"."+m]; f != nil && f.eff {
			return true
		}
	}
	return false
}

/* ---------- conditions ---------- */

// (term, static): static 1 = true here, -1 = false here, 0 = the term decides
func (g *n26) cond(env *n26env, e ast.Expr) (string, int) {
	switch x := e.(type) {
	case *ast.ParenExpr:
		return g.cond(env, x.X)
	case *ast.UnaryExpr:
		if x.Op == token.NOT {
			t, s := g.cond(env, x.X)
			if s != 0 {
				return "", -s
			}
			return "(!" + t + ")", 0
		}
	case *ast.BinaryExpr:
		switch x.Op {
		case token.LOR, token.LAND:
			a, sa := g.cond(env, x.X)
			b, sb := g.cond(env, x.Y)
			or := x.Op == token.LOR
			if (or && (sa == 1 || sb == 1)) || (!or && (sa == -1 || sb == -1)) {
				if or {
					return "", 1
				}
				return "", -1
			}
			if sa != 0 {
				return b, sb
			}
			if sb != 0 {
				return a, sa
			}
			if or {
				return "(" + a + " || " + b + ")", 0
			}
			return "(" + a + " && " + b + ")", 0
		case token.EQL, token.NEQ:
			var other ast.Expr
			if n26isNil(x.Y) {
				other = x.X
			} else if n26isNil(x.X) {
				other = x.Y
			}
			if other != nil {
				if p, j, _, ok := g.field(env, other); ok && p != nil && (j == -1 || p.ptr) {
					st := env.state[p.name]
					if st == "" {
						return g.bad("state of %s not known at %s", p.name, g.pos(e)), 0
					}
					// the error is nil under ok; the pointer is nil under err
					isNil := (j == -1 && st == "ok") || (j >= 0 && st == "err")
					if (x.Op == token.EQL) == isNil {
						return "", 1
					}
					return "", -1
				}
				if id, ok := other.(*ast.Ident); ok {
					if v, ok := env.vars[id.Name]; ok && v.typ == "Go.Error" {
						if x.Op == token.NEQ {
							return "", 1
						}
						return "", -1
					}
				}
			}
		}
	case *ast.CallExpr:
		fn := exprString(x.Fun)
		if fn == "errors.Is" && len(x.Args) == 2 && exprString(x.Args[1]) == "object.ErrKeyNotPresent" {
			if p, j, _, ok := g.field(env, x.Args[0]); ok && p != nil && j == -1 {
				switch env.state[p.name] {
				case "ok":
					return "", -1
				case "err":
					if p.errType != "Obj.Err" {
						return g.bad("the record keeps nothing of %s: errors.Is cannot be answered (%s)", p.err, g.pos(e)), 0
					}
					g.cur.usesRecv = true
					return "(Go.Error.is (Go.Error.ofObj " + g.errName(env, p) + ") .keyNotPresent)", 0
				}
			}
		}
		if fn == "strings.HasPrefix" && len(x.Args) == 2 {
			if lit, ok := n26strLit(x.Args[1]); ok {
				return "(Go.Strings.hasPrefix " + g.expr(env, x.Args[0], "Str") + " (Go.str " + leanStr(lit) + "))", 0
			}
		}
	}
	return g.bad("condition %s at %s", exprString(e), g.pos(e)), 0
}

// `v[k:]` is allowed under a disjunction of HasPrefix(v, lit) with ASCII literals of k bytes
func n26prefixes(e ast.Expr) (string, int, bool) {
	switch x := e.(type) {
	case *ast.ParenExpr:
		return n26prefixes(x.X)
	case *ast.BinaryExpr:
		if x.Op == token.LOR {
			v1, n1, ok1 := n26prefixes(x.X)
			v2, n2, ok2 := n26prefixes(x.Y)
			return v1, n1, ok1 && ok2 && v1 == v2 && n1 == n2
		}
	case *ast.CallExpr:
		if exprString(x.Fun) == "strings.HasPrefix" && len(x.Args) == 2 {
			if id, ok := x.Args[0].(*ast.Ident); ok {
				if lit, ok := n26strLit(x.Args[1]); ok {
					for _, c := range []byte(lit) {
						if c >= 0x80 {
							return "", 0, false
						}
					}
					return id.Name, len(lit), true
				}
			}
		}
	}
	return "", 0, false
}

/* ---------- statements ---------- */

func n26terminates(ss []ast.Stmt) bool {
	if len(ss) == 0 {
		return false
	}
	switch x := ss[len(ss)-1].(type) {
	case *ast.ReturnStmt:
		return true
	case *ast.IfStmt:
		if x.Else == nil {
			return false
		}
		if !n26terminates(x.Body.List) {
			return false
		}
		switch el := x.Else.(type) {
		case *ast.BlockStmt:
			return n26terminates(el.List)
		case *ast.IfStmt:
			return n26terminates([]ast.Stmt{el})
		}
	}
	return false
}

func (g *n26) pure(t string) string {
	if g.cur.eff {
		return "pure " + t
	}
	return t
}

func (g *n26) stmts(ss []ast.Stmt, env *n26env, ind int) {
	if len(ss) == 0 {
		g.line(ind, g.bad("the function falls off its end"))
		return
	}
	s := ss[0]
	rest := ss[1:]
	// the pairs this statement looks at
	var heads []ast.Node
	switch x := s.(type) {
	case *ast.IfStmt:
		heads = append(heads, x.Cond)
	case *ast.ReturnStmt:
		for _, r := range x.Results {
			heads = append(heads, r)
		}
	case *ast.AssignStmt:
		for _, r := range x.Rhs {
			heads = append(heads, r)
		}
	}
	if ps := g.unknownPairs(env, heads...); len(ps) > 0 {
		p := ps[0]
		g.cur.usesRecv = true
		g.line(ind, "match "+env.recv+"."+p.name+" with")
		g.line(ind, "| .error "+g.errName(env, p)+" =>")
		e1 := env.clone()
		e1.state[p.name] = "err"
		g.stmts(ss, e1, ind+1)
		names := []string{}
		for j := range p.vals {
			names = append(names, g.valName(env, p, j))
		}
		pat := names[0]
		if len(names) > 1 {
			pat = "(" + strings.Join(names, ", ") + ")"
		}
		g.line(ind, "| .ok "+pat+" =>")
		e2 := env.clone()
		e2.state[p.name] = "ok"
		g.stmts(ss, e2, ind+1)
		return
	}
	switch x := s.(type) {
	case *ast.ReturnStmt:
		if len(rest) > 0 {
			g.line(ind, g.bad("statements after a return"))
			return
		}
		wants := strings.Split(g.cur.resType, " × ")
		if _, isCall := x.Results[0].(*ast.CallExpr); isCall && len(x.Results) == 1 && len(wants) > 1 {
			// return f(…) with all the results of f
			g.line(ind, g.pure(g.expr(env, x.Results[0], g.cur.resType)))
			return
		}
		if len(x.Results) != len(wants) {
			g.line(ind, g.bad("return of %d values at %s", len(x.Results), g.pos(x)))
			return
		}
		parts := []string{}
		for i, r := range x.Results {
			parts = append(parts, g.expr(env, r, wants[i]))
		}
		t := parts[0]
		if len(parts) > 1 {
			t = "(" + strings.Join(parts, ", ") + ")"
		}
		g.line(ind, g.pure(t))
	case *ast.IfStmt:
		g.ifStmt(x, rest, env, ind)
	case *ast.AssignStmt:
		g.assign(x, rest, env, ind)
	default:
		g.line(ind, g.bad("statement %T at %s", s, g.pos(s)))
	}
}

func (g *n26) elseStmts(x *ast.IfStmt) ([]ast.Stmt, bool) {
	switch el := x.Else.(type) {
	case nil:
		return nil, false
	case *ast.BlockStmt:
		return el.List, true
	case *ast.IfStmt:
		return []ast.Stmt{el}, true
	}
	return nil, false
}

func (g *n26) ifStmt(x *ast.IfStmt, rest []ast.Stmt, env *n26env, ind int) {
	if x.Init != nil {
		g.line(ind, g.bad("if with an init statement at %s", g.pos(x)))
		return
	}
	els, hasElse := g.elseStmts(x)
	if elif, ok := x.Else.(*ast.IfStmt); ok {
		// else if …: the chain goes on with the statements after it
		els = append([]ast.Stmt{elif}, rest...)
		rest = nil
		if !n26terminates(els) {
			g.line(ind, g.bad("an if whose branches do not all return at %s", g.pos(x)))
			return
		}
	}
	thenTerm := n26terminates(x.Body.List)
	if !thenTerm || (hasElse && !n26terminates(els)) {
		g.line(ind, g.bad("an if whose branches do not all return at %s", g.pos(x)))
		return
	}
	if hasElse && len(rest) > 0 {
		g.line(ind, g.bad("statements after an if/else that returns on both sides at %s", g.pos(x)))
		return
	}
	after := rest
	if hasElse {
		after = els
	}
	// x == k on a uint
	if be, ok := x.Cond.(*ast.BinaryExpr); ok && be.Op == token.EQL {
		if id, ok := be.X.(*ast.Ident); ok {
			if bl, ok := be.Y.(*ast.BasicLit); ok && bl.Kind == token.INT {
				if v, ok := env.vars[id.Name]; ok && v.typ == "Nat" {
					g.hyp++
					g.line(ind, fmt.Sprintf("if h_%d : %s = %s then", g.hyp, v.lean, bl.Value))
					g.stmts(x.Body.List, env.clone(), ind+1)
					g.line(ind, "else")
					e2 := env.clone()
					if bl.Value == "0" {
						e2.nonzero[id.Name] = true
					}
					g.stmts(after, e2, ind+1)
					return
				}
			}
		}
	}
	t, st := g.cond(env, x.Cond)
	switch st {
	case 1:
		g.line(ind, "-- "+exprString(x.Cond)+": true here")
		g.stmts(x.Body.List, env.clone(), ind)
	case -1:
		g.line(ind, "-- "+exprString(x.Cond)+": false here")
		g.stmts(after, env.clone(), ind)
	default:
		g.line(ind, "if "+t+" then")
		e1 := env.clone()
		if v, n, ok := n26prefixes(x.Cond); ok {
			e1.prefixLen[v] = n
		}
		g.stmts(x.Body.List, e1, ind+1)
		g.line(ind, "else")
		g.stmts(after, env.clone(), ind+1)
	}
}

func (g *n26) assign(x *ast.AssignStmt, rest []ast.Stmt, env *n26env, ind int) {
	if x.Tok != token.DEFINE || len(x.Lhs) != 2 || len(x.Rhs) != 1 {
		g.line(ind, g.bad("assignment at %s", g.pos(x)))
		return
	}
	c, ok := x.Rhs[0].(*ast.CallExpr)
	l0, ok0 := x.Lhs[0].(*ast.Ident)
	l1, ok1 := x.Lhs[1].(*ast.Ident)
	if !ok || !ok0 || !ok1 {
		g.line(ind, g.bad("assignment at %s", g.pos(x)))
		return
	}
	fn := exprString(c.Fun)
	// v, err := F(…); if err != nil { … }
	call, vtype := "", ""
	switch fn {
	case "NewPostFromObject":
		if len(c.Args) == 2 {
			call = "(← GenNewitem.NewPostFromObject L X " + g.expr(env, c.Args[0], "Pub.O") + " " + g.expr(env, c.Args[1], "Option Pub.U") + ")"
			vtype = "Pub.PostM"
		}
	case "client.ResolveWebfinger", "client.FetchFromFile":
		name := strings.TrimPrefix(fn, "client.")
		if t, ok := g.extSigs[name]; ok && len(c.Args) == 1 {
			call = "(E." + name + " " + g.expr(env, c.Args[0], "Str") + ")"
			vtype = t
		}
	}
	if call != "" {
		if len(rest) == 0 {
			g.line(ind, g.bad("nothing after %s", exprString(x.Rhs[0])))
			return
		}
		chk, ok := rest[0].(*ast.IfStmt)
		good := false
		if ok && chk.Init == nil && chk.Else == nil && n26terminates(chk.Body.List) {
			if be, ok := chk.Cond.(*ast.BinaryExpr); ok && be.Op == token.NEQ && exprString(be.X) == l1.Name && n26isNil(be.Y) {
				good = true
			}
		}
		if !good {
			g.line(ind, g.bad("%s := %s is not followed by `if %s != nil { …return }` (%s)", l0.Name+", "+l1.Name, fn, l1.Name, g.pos(x)))
			return
		}
		g.line(ind, "match "+call+" with")
		g.line(ind, "| .error "+l1.Name+" =>")
		e1 := env.clone()
		e1.vars[l1.Name] = n26var{l1.Name, "Go.Error"}
		delete(e1.vars, l0.Name)
		g.line(ind+1, "-- "+l1.Name+" != nil: true here")
		g.stmts(chk.Body.List, e1, ind+1)
		g.line(ind, "| .ok "+l0.Name+" =>")
		e2 := env.clone()
		e2.vars[l0.Name] = n26var{l0.Name, vtype}
		delete(e2.vars, l1.Name)
		g.line(ind+1, "-- "+l1.Name+" != nil: false here")
		g.stmts(rest[1:], e2, ind+1)
		return
	}
	// a, b := x.M(…) with two results
	if sel, ok := c.Fun.(*ast.SelectorExpr); ok {
		rt := g.typeOf(env, sel.X)
		if tname, ok := n26TypeOfLean[rt]; ok && tname != "Target" {
			if callee := g.fns[tname+"."+sel.Sel.Name]; callee != nil {
				parts := strings.Split(callee.resType, " × ")
				if len(parts) == 2 {
					t := g.expr(env, c, callee.resType)
					g.line(ind, "let ("+l0.Name+", "+l1.Name+") := "+t)
					e2 := env.clone()
					e2.vars[l0.Name] = n26var{l0.Name, parts[0]}
					e2.vars[l1.Name] = n26var{l1.Name, parts[1]}
					g.stmts(rest, e2, ind)
					return
				}
			}
		}
	}
	g.line(ind, g.bad("assignment from %s at %s", fn, g.pos(x)))
}

/* ---------- functions ---------- */

func (g *n26) resultType(f *n26fn) string {
	res := []string{}
	if f.decl.Type.Results != nil {
		for _, r := range f.decl.Type.Results.List {
			cnt := len(r.Names)
			if cnt == 0 {
				cnt = 1
			}
			for i := 0; i < cnt; i++ {
				res = append(res, typeStr(r.Type))
			}
		}
	}
	key := strings.Join(res, ", ")
	switch key {
	case "[]Tangible, Tangible":
		return "List Tangible × Option Tangible"
	case "Container":
		return "Option Pub.CollM"
	case "time.Time":
		return "Int"
	case "*url.URL":
		return "Option Pub.U"
	case "Any":
		return "Any"
	case "[]Tangible", "Tangible":
		// the type the record keeps, when every return is a plain field of the record
		t := ""
		same := true
		recv := ""
		if f.decl.Recv != nil && len(f.decl.Recv.List[0].Names) == 1 {
			recv = f.decl.Recv.List[0].Names[0].Name
		}
		env := &n26env{recv: recv, recvType: f.recvType, vars: map[string]n26var{}, state: map[string]string{}}
		ast.Inspect(f.decl.Body, func(n ast.Node) bool {
			if r, ok := n.(*ast.ReturnStmt); ok && len(r.Results) == 1 {
				p, _, ft, ok := g.field(env, r.Results[0])
				if !ok || p != nil {
					same = false
				} else if t == "" {
					t = ft
				} else if t != ft {
					same = false
				}
			}
			return true
		})
		if same && t != "" {
			return t
		}
		if key == "Tangible" {
			return "Tangible"
		}
	}
	return g.bad("result type (%s)", key)
}

func n26leanParam(t string) (string, bool) {
	switch t {
	case "uint":
		return "Nat", true
	case "string":
		return "Str", true
	}
	return "", false
}

func (g *n26) function(f *n26fn) {
	g.cur = f
	g.hyp = 0
	body := &strings.Builder{}
	saved := g.b
	g.b = body
	env := &n26env{vars: map[string]n26var{}, state: map[string]string{}, nonzero: map[string]bool{}, prefixLen: map[string]int{}, recvType: f.recvType}
	if f.decl.Recv != nil && len(f.decl.Recv.List[0].Names) == 1 {
		env.recv = f.decl.Recv.List[0].Names[0].Name
	}
	for i, p := range f.params {
		env.vars[p] = n26var{p, f.ptypes[i]}
	}
	g.stmts(f.decl.Body.List, env, 1)
	g.b = saved
	sig := ""
	if f.eff {
		sig += " (L : Obj.Libs Int Pub.U) (X : GenNewitem.Ext)"
		if f.recvType == "" {
			sig += " (E : Ext)"
		}
	}
	if f.recvType != "" {
		if f.recvType == "Failure" && !f.usesRecv {
			// Pub.Target keeps nothing of a failure: the method is translated without its receiver
		} else {
			sig += " (" + env.recv + " : " + n26Records[f.recvType].lean + ")"
		}
	}
	for i, p := range f.params {
		sig += " (" + p + " : " + f.ptypes[i] + ")"
	}
	title := "func " + f.key
	if f.recvType != "" {
		title = "func (" + env.recv + " *" + f.recvType + ") " + f.decl.Name.Name
	}
	g.line(0, "/-- `"+title+"` -/")
	rt := "(" + f.resType + ")"
	if f.eff {
		g.line(0, "def "+f.key+sig+" :\n    Except Panic "+rt+" := do")
	} else {
		g.line(0, "def "+f.key+sig+" : "+rt+" :=")
	}
	text := body.String()
	g.b.WriteString(text)
	if strings.Contains(text, f.key+" L X") {
		// recursive: on the uint parameter
		for i, p := range f.params {
			if f.ptypes[i] == "Nat" {
				g.line(0, "termination_by "+p)
				g.line(0, "decreasing_by all_goals omega")
				break
			}
		}
	}
	g.line(0, "")
}

func n26containsEff(body *ast.BlockStmt, effNames map[string]bool) bool {
	found := false
	ast.Inspect(body, func(n ast.Node) bool {
		switch x := n.(type) {
		case *ast.CallExpr:
			fn := exprString(x.Fun)
			if fn == "NewPostFromObject" || fn == "New" {
				found = true
			}
			if sel, ok := x.Fun.(*ast.SelectorExpr); ok && effNames[sel.Sel.Name] {
				if id, ok := sel.X.(*ast.Ident); !ok || (id.Name != "client" && id.Name != "strings" && id.Name != "errors") {
					found = true
				}
			}
		case *ast.SliceExpr:
			found = true
		}
		return true
	})
	return found
}

func translateNavigate(root string) (string, []string) {
	g := &n26{fns: map[string]*n26fn{}, structs: map[string]*ast.StructType{}, extSigs: map[string]string{}, b: &strings.Builder{}, targetM: map[string]bool{}}
	entries, err := os.ReadDir(filepath.Join(root, "pub"))
	if err != nil {
		return "def navigate := sorry_untranslatable\n", []string{"pub: " + err.Error()}
	}
	names := []string{}
	for _, e := range entries {
		if strings.HasSuffix(e.Name(), ".go") && !strings.HasSuffix(e.Name(), "_test.go") && !strings.HasSuffix(e.Name(), "verif_shim.go") {
			names = append(names, e.Name())
		}
	}
	sort.Strings(names)
	all := map[string]*ast.FuncDecl{}
	for _, n := range names {
		f := parseFile(root, filepath.Join("pub", n))
		for _, d := range f.Decls {
			switch x := d.(type) {
			case *ast.FuncDecl:
				key := x.Name.Name
				if x.Recv != nil && len(x.Recv.List) == 1 {
					key = strings.TrimPrefix(typeStr(x.Recv.List[0].Type), "*") + "." + key
				}
				all[key] = x
			case *ast.GenDecl:
				for _, spec := range x.Specs {
					if ts, ok := spec.(*ast.TypeSpec); ok {
						if st, ok := ts.Type.(*ast.StructType); ok {
							g.structs[ts.Name.Name] = st
						}
					}
				}
			}
		}
	}
	// the client functions taken from outside: the type of their value result
	cf := parseFile(root, "client/client.go")
	for _, d := range cf.Decls {
		if fd, ok := d.(*ast.FuncDecl); ok && fd.Recv == nil && (fd.Name.Name == "ResolveWebfinger" || fd.Name.Name == "FetchFromFile") {
			ps, rs := []string{}, []string{}
			for _, p := range fd.Type.Params.List {
				for range p.Names {
					ps = append(ps, typeStr(p.Type))
				}
			}
			if fd.Type.Results != nil {
				for _, r := range fd.Type.Results.List {
					rs = append(rs, typeStr(r.Type))
				}
			}
			if len(ps) == 1 && ps[0] == "string" && len(rs) == 2 && rs[1] == "error" {
				switch rs[0] {
				case "string":
					g.extSigs[fd.Name.Name] = "Str"
				case "object.Object":
					g.extSigs[fd.Name.Name] = "Pub.O:named"
				case "map[string]any":
					g.extSigs[fd.Name.Name] = "Pub.O"
				}
			}
		}
	}
	units := []string{
		"Failure.Parents", "Failure.Children", "Failure.Timestamp",
		"Actor.Parents", "Actor.Children", "Actor.Identifier", "Actor.Timestamp",
		"Post.Children", "Post.Parents", "Post.ParentIdentifier", "Post.Creators", "Post.Recipients", "Post.Timestamp",
		"Activity.Children", "Activity.Parents", "Activity.Timestamp", "Activity.Actor", "Activity.ActorIdentifier", "Activity.Target",
		"FetchUserInput",
	}
	for _, u := range units {
		fd := all[u]
		f := &n26fn{key: u, decl: fd}
		g.cur = f
		if fd == nil || fd.Body == nil {
			g.bad("function not found")
			continue
		}
		if i := strings.Index(u, "."); i >= 0 {
			f.recvType = u[:i]
		}
		k := 0
		for _, p := range fd.Type.Params.List {
			lt, ok := n26leanParam(typeStr(p.Type))
			if !ok {
				g.bad("parameter type %s", typeStr(p.Type))
				lt = "sorry_untranslatable"
			}
			if len(p.Names) == 0 {
				f.params = append(f.params, fmt.Sprintf("a%d_", k))
				f.ptypes = append(f.ptypes, lt)
				k++
			}
			for _, n := range p.Names {
				f.params = append(f.params, n.Name)
				f.ptypes = append(f.ptypes, lt)
				k++
			}
		}
		g.fns[u] = f
	}
	for _, u := range units {
		if f := g.fns[u]; f != nil {
			g.cur = f
			f.resType = g.resultType(f)
		}
	}
	// which functions run in Except Panic: fixpoint over method names
	effNames := map[string]bool{}
	for changed := true; changed; {
		changed = false
		for _, u := range units {
			f := g.fns[u]
			if f == nil || f.eff {
				continue
			}
			if n26containsEff(f.decl.Body, effNames) {
				f.eff = true
				effNames[f.decl.Name.Name] = true
				changed = true
			}
		}
	}
	texts := map[string]string{}
	for _, u := range units {
		f := g.fns[u]
		if f == nil {
			continue
		}
		g.b = &strings.Builder{}
		g.function(f)
		texts[u] = g.b.String()
	}
	var out strings.Builder
	w := func(s string) { out.WriteString(s + "\n") }
	w("set_option linter.unusedVariables false")
	w("")
	w("namespace GenNavigate")
	w("open GenListing (Tangible Any Failure)")
	w("")
	w("/-- What the translated code takes from outside (besides what the constructors take, `GenNewitem.Ext`):")
	w("    the functions of package client that `FetchUserInput` calls, with the result types client/client.go declares. -/")
	w("structure Ext where")
	extNames := []string{}
	for n := range g.extSigs {
		extNames = append(extNames, n)
	}
	sort.Strings(extNames)
	for _, n := range extNames {
		w("  " + n + " : Str → Go.Res " + strings.TrimSuffix(g.extSigs[n], ":named"))
	}
	w("")
	emitTargets := func() {
		ms := []string{}
		for m := range g.targetM {
			ms = append(ms, m)
		}
		sort.Strings(ms)
		for _, m := range ms {
			post, actor, fail := g.fns["Post."+m], g.fns["Actor."+m], g.fns["Failure."+m]
			if post == nil || actor == nil || fail == nil {
				continue
			}
			eff := g.targetEff(m)
			sig, args := "", ""
			for i, p := range post.params {
				sig += " (" + p + " : " + post.ptypes[i] + ")"
				args += " " + p
			}
			w("/-- `x." + m + "(…)` on the `Tangible` an activity holds: the implementers the record distinguishes -/")
			hd := "def Target." + m
			if eff {
				hd += " (L : Obj.Libs Int Pub.U) (X : GenNewitem.Ext)"
			}
			hd += " (t : Pub.Target)" + sig + " : "
			if eff {
				hd += "Except Panic (" + post.resType + ") :="
			} else {
				hd += "(" + post.resType + ") :="
			}
			w(hd)
			w("  match t with")
			arm := func(f *n26fn, recv string) string {
				t := f.key
				if f.eff {
					t += " L X"
				}
				if recv != "" {
					t += " " + recv
				}
				t += args
				if eff && !f.eff {
					return "pure (" + t + ")"
				}
				return t
			}
			w("  | .post v => " + arm(post, "v"))
			w("  | .actor v => " + arm(actor, "v"))
			if fail.usesRecv {
				g.cur = fail
				w("  | .failure => " + g.bad("the method uses its receiver, the record keeps nothing of a failure"))
			} else {
				w("  | .failure => " + arm(fail, ""))
			}
			w("")
		}
	}
	for _, u := range units {
		if strings.HasPrefix(u, "Activity.") && g.targetM != nil {
			emitTargets()
			g.targetM = nil
		}
		out.WriteString(texts[u])
	}
	w("end GenNavigate")
	return out.String(), g.errs
}
