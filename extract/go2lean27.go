package main

/*
go2lean, twenty-seventh front end: the glue between translated units — `splicer.NewSplicer`,
`object.GetMarkup`, `markdown.NewMarkup`, `hypertext.NewMarkup`, `style.superscript`.  Output:
lean/Generated/GoGlue.lean, namespace GenGlue (unit name `glue`); `Props/Gen11n.lean`,
`Props/Gen17m.lean`, `Props/Gen14s.lean` prove it equal to the model.

What is read from the source, function by function; anything else is an UNTRANSLATABLE marker
(a line that is not Lean, so the build of the generated file fails).

(a) `func NewSplicer(inputs []string) *Splicer`  (splicer/splicer.go)

	s := make(Splicer, len(inputs))        Go.make (the element type is GenSplicer.Source)
	var wg sync.WaitGroup                  a counter `wg : Int`, 0
	for i, input := range inputs { … }     Go.indices / Go.index
	  i := i / input := input              the per-iteration copies (nothing to translate)
	  wg.Add(n)                            wg := wg + n
	  if c { continue }                    c: x == "lit", x != "lit", len(x) == n on the loop variables
	  go func() { … }()                    the closure is a function of `input` and the cell s[i]
	                                       (accepted only if every write it makes is `s[i].f = e`, i the
	                                       loop index, and it mentions `s` nowhere else); it returns the
	                                       cell and the NUMBER OF `wg.Done()` EXECUTED on the path taken;
	                                       the caller stores the cell and subtracts that number from wg
	wg.Wait()                              recorded: the function's second result is the counter Wait sees
	                                       (Wait returns iff it is 0)
	return &s                              (s, wg); a return with no Wait before it is rejected
  in the closure:
	v := pub.FetchUserInput(x)             X.FetchUserInput x (external)
	switch n := v.(type) { case T: … }     the cases in source order, as `if let some n := X.as_T v`;
	                                       `case nil` is X.isNil; `default` the final else
	s[i].f = e                             by the type of the field f in `type Splicer []struct`:
	                                       interface field: n.Children() (n a pub.Tangible), n (a concrete
	                                       case type: wrapped in the interface, never nil), nil;
	                                       uint field: a literal; slice field: []T{} or nil
	wg.Done()                              done := done + 1
	panic("lit")                           throw
	return                                 return (cell, done)

(b) `func (o Object) GetMarkup(contentKey, mediaTypeKey string) (Markup, []string, error)`

	v, err := o.GetX(key)                  the translated accessor GenObject.GetX
	if err != nil { return nil, nil, err } the error is passed on
	if errors.Is(err, ErrKeyNotPresent) { v = mime.F() } else if err != nil { return nil, nil, err }
	                                       absent: the default mime.F(); another error is passed on
	switch v.Essence { case "lit": return pkg.NewMarkup(x) … default: return nil, nil, errors.New(…) }
	                                       the cases in order; a constructor call is a value of the
	                                       generated enumeration `Ctor` paired with its argument;
	                                       errors.New is Obj.Err.wrong

(c) `hypertext.NewMarkup`, `markdown.NewMarkup`: exactly the statement shapes of the current
source with the external parser / converter as a parameter; the call of the external function is
recorded as text (`hypertext_parseCall`, `markdown_convertCall`, `markdown_renderer`).

(d) `func superscript(value int) string`: `text := strconv.Itoa(value)` then
`return strings.Map(func(input rune) rune { switch input { case 'c': return 'd' … default: panic("…") } }, text)`;
every result of the closure must be a rune literal (so `strings.Map` drops nothing).
*/

import (
	"bytes"
	"fmt"
	"go/ast"
	"go/printer"
	"go/token"
	"os"
	"path/filepath"
	"sort"
	"strconv"
	"strings"
)

type glue struct {
	b    strings.Builder
	errs []string
}

func (g *glue) line(ind int, s string) { g.b.WriteString(strings.Repeat("  ", ind) + s + "\n") }

func (g *glue) fail(format string, a ...any) string {
	msg := fmt.Sprintf(format, a...)
	g.errs = append(g.errs, msg)
	/* not Lean: the build of the generated file stops here */
	return "UNTRANSLATABLE[" + msg + "]"
}

func goText(n ast.Node) string {
	var buf bytes.Buffer
	printer.Fprint(&buf, fset, n)
	return strings.Join(strings.Fields(buf.String()), " ")
}

func findFunc(f *ast.File, recv, name string) *ast.FuncDecl {
	for _, d := range f.Decls {
		fd, ok := d.(*ast.FuncDecl)
		if !ok || fd.Name.Name != name || fd.Body == nil {
			continue
		}
		r := ""
		if fd.Recv != nil && len(fd.Recv.List) == 1 {
			r = strings.TrimPrefix(exprString(fd.Recv.List[0].Type), "*")
		}
		if r == recv {
			return fd
		}
	}
	return nil
}

func paramNames(fd *ast.FuncDecl) ([]string, []string) {
	var ns, ts []string
	for _, p := range fd.Type.Params.List {
		for _, n := range p.Names {
			ns = append(ns, n.Name)
			ts = append(ts, goText(p.Type))
		}
	}
	return ns, ts
}

func resultTypes(fd *ast.FuncDecl) []string {
	var ts []string
	if fd.Type.Results == nil {
		return ts
	}
	for _, p := range fd.Type.Results.List {
		k := len(p.Names)
		if k == 0 {
			k = 1
		}
		for j := 0; j < k; j++ {
			ts = append(ts, goText(p.Type))
		}
	}
	return ts
}

func callOf(e ast.Expr, fun string) *ast.CallExpr {
	c, ok := e.(*ast.CallExpr)
	if !ok {
		return nil
	}
	if goText(c.Fun) != fun {
		return nil
	}
	return c
}

/* ---------- (a) NewSplicer ---------- */

/* the name a case type gets as a Lean type parameter / in the names of the classifiers */
func caseTypeName(t string) string {
	t = strings.TrimPrefix(t, "*")
	if k := strings.LastIndex(t, "."); k >= 0 {
		t = t[k+1:]
	}
	return t
}

type spl struct {
	*glue
	fields    map[string]string /* field of the element struct -> Go type */
	sliceVar  string
	wgVar     string
	idxVar    string
	inputVar  string
	caseTypes []string /* concrete / interface case types in order of first appearance (Go text) */
	usesNil   bool
	usesChild bool
	wraps     map[string]bool /* concrete case types stored into an interface field */
	narrowed  map[string]string
	out       *strings.Builder /* where the closure's statements go while it is being translated */
}

func (g *spl) line(ind int, s string) {
	if g.out != nil {
		g.out.WriteString(strings.Repeat("  ", ind) + s + "\n")
		return
	}
	g.glue.line(ind, s)
}

func (g *spl) noteCase(t string) {
	for _, c := range g.caseTypes {
		if c == t {
			return
		}
	}
	g.caseTypes = append(g.caseTypes, t)
}

/* a statement of the goroutine's closure */
func (g *spl) closureStmt(ind int, st ast.Stmt) {
	switch x := st.(type) {
	case *ast.AssignStmt:
		if len(x.Lhs) != 1 || len(x.Rhs) != 1 {
			g.line(ind, g.fail("assignment %s", goText(x)))
			return
		}
		if x.Tok == token.DEFINE {
			id, ok := x.Lhs[0].(*ast.Ident)
			c := callOf(x.Rhs[0], "pub.FetchUserInput")
			if !ok || c == nil || len(c.Args) != 1 || !isIdent(c.Args[0], g.inputVar) {
				g.line(ind, g.fail("definition %s", goText(x)))
				return
			}
			g.line(ind, "let "+id.Name+" := (X.FetchUserInput "+g.inputVar+")")
			return
		}
		if x.Tok != token.ASSIGN {
			g.line(ind, g.fail("assignment %s", goText(x)))
			return
		}
		sel, ok := x.Lhs[0].(*ast.SelectorExpr)
		if !ok {
			g.line(ind, g.fail("the closure assigns to %s: only %s[%s].field may be written", goText(x.Lhs[0]), g.sliceVar, g.idxVar))
			return
		}
		ix, ok := sel.X.(*ast.IndexExpr)
		if !ok || !isIdent(ix.X, g.sliceVar) || !isIdent(ix.Index, g.idxVar) {
			g.line(ind, g.fail("the closure assigns to %s: only %s[%s].field may be written", goText(x.Lhs[0]), g.sliceVar, g.idxVar))
			return
		}
		ft, ok := g.fields[sel.Sel.Name]
		if !ok {
			g.line(ind, g.fail("no field %s in the element type", sel.Sel.Name))
			return
		}
		g.line(ind, "cell := { cell with "+sel.Sel.Name+" := "+g.fieldValue(ft, x.Rhs[0])+" }")
	case *ast.ExprStmt:
		c, ok := x.X.(*ast.CallExpr)
		if !ok {
			g.line(ind, g.fail("statement %s", goText(x)))
			return
		}
		switch goText(c.Fun) {
		case g.wgVar + ".Done":
			g.line(ind, "done := done + 1  -- "+g.wgVar+".Done()")
		case "panic":
			if len(c.Args) == 1 {
				if lit, ok := c.Args[0].(*ast.BasicLit); ok && lit.Kind == token.STRING {
					g.line(ind, "throw (Panic.explicit "+leanStr(unquote(lit))+")")
					return
				}
			}
			g.line(ind, g.fail("panic with %s", goText(c)))
		default:
			g.line(ind, g.fail("call %s in the closure", goText(c)))
		}
	case *ast.ReturnStmt:
		if len(x.Results) != 0 {
			g.line(ind, g.fail("return with results in the closure"))
			return
		}
		g.line(ind, "return (cell, done)")
	case *ast.TypeSwitchStmt:
		g.typeSwitch(ind, x)
	default:
		g.line(ind, g.fail("statement %s in the closure", goText(st)))
	}
}

func (g *spl) fieldValue(ft string, e ast.Expr) string {
	switch {
	case ft == "uint" || ft == "int":
		if lit, ok := e.(*ast.BasicLit); ok && lit.Kind == token.INT {
			return lit.Value
		}
	case strings.HasPrefix(ft, "[]"):
		if isIdent(e, "nil") {
			return "[]"
		}
		if cl, ok := e.(*ast.CompositeLit); ok && len(cl.Elts) == 0 && goText(cl.Type) == ft {
			return "[]"
		}
	case ft == "pub.Container":
		if isIdent(e, "nil") {
			return "none"
		}
		if id, ok := e.(*ast.Ident); ok {
			if t, ok := g.narrowed[id.Name]; ok {
				if t == "pub.Container" {
					return "(some " + id.Name + ")"
				}
				if t != "pub.Tangible" && t != "nil" && t != "" {
					/* a concrete value stored in an interface: never the nil interface */
					g.wraps[t] = true
					return "(some (X." + caseTypeName(t) + "_asContainer " + id.Name + "))"
				}
			}
		}
		if c, ok := e.(*ast.CallExpr); ok && len(c.Args) == 0 {
			if sel, ok := c.Fun.(*ast.SelectorExpr); ok && sel.Sel.Name == "Children" {
				if id, ok := sel.X.(*ast.Ident); ok && g.narrowed[id.Name] == "pub.Tangible" {
					g.usesChild = true
					return "(X.Children " + id.Name + ")"
				}
			}
		}
	}
	return g.fail("value %s for a field of type %s", goText(e), ft)
}

func (g *spl) typeSwitch(ind int, x *ast.TypeSwitchStmt) {
	if x.Init != nil {
		g.line(ind, g.fail("type switch with an init statement"))
		return
	}
	bound, subject := "", ""
	switch a := x.Assign.(type) {
	case *ast.AssignStmt:
		if len(a.Lhs) == 1 && len(a.Rhs) == 1 {
			if id, ok := a.Lhs[0].(*ast.Ident); ok {
				if ta, ok := a.Rhs[0].(*ast.TypeAssertExpr); ok && ta.Type == nil {
					if s, ok := ta.X.(*ast.Ident); ok {
						bound, subject = id.Name, s.Name
					}
				}
			}
		}
	case *ast.ExprStmt:
		if ta, ok := a.X.(*ast.TypeAssertExpr); ok && ta.Type == nil {
			if s, ok := ta.X.(*ast.Ident); ok {
				bound, subject = "_", s.Name
			}
		}
	}
	if subject == "" {
		g.line(ind, g.fail("type switch %s", goText(x.Assign)))
		return
	}
	g.line(ind, "-- switch "+goText(x.Assign)+": the first case that matches")
	var def *ast.CaseClause
	first := true
	for _, cs := range x.Body.List {
		cc := cs.(*ast.CaseClause)
		if cc.List == nil {
			def = cc
			continue
		}
		if len(cc.List) != 1 {
			g.line(ind, g.fail("a case with several types"))
			return
		}
		t := goText(cc.List[0])
		kw := "else if"
		if first {
			kw = "if"
		}
		first = false
		if t == "nil" {
			g.usesNil = true
			g.line(ind, kw+" X.isNil "+subject+" then")
			g.narrowed[bound] = "nil"
		} else {
			g.noteCase(t)
			g.line(ind, kw+" let some "+bound+" := X.as_"+caseTypeName(t)+" "+subject+" then")
			g.narrowed[bound] = t
		}
		if len(cc.Body) == 0 {
			g.line(ind+1, "pure ()")
		}
		for _, s := range cc.Body {
			g.closureStmt(ind+1, s)
		}
		delete(g.narrowed, bound)
	}
	if first {
		/* only a default (or nothing) */
		if def != nil {
			for _, s := range def.Body {
				g.closureStmt(ind, s)
			}
		}
		return
	}
	g.line(ind, "else")
	if def == nil || len(def.Body) == 0 {
		g.line(ind+1, "pure ()")
	} else {
		for _, s := range def.Body {
			g.closureStmt(ind+1, s)
		}
	}
}

/* every mention of the slice variable in the closure must be the base of `s[i]` on the left of an assignment */
func (g *spl) closureTouchesOnlyCell(body *ast.BlockStmt) bool {
	allowed := map[*ast.Ident]bool{}
	ast.Inspect(body, func(n ast.Node) bool {
		if as, ok := n.(*ast.AssignStmt); ok && as.Tok == token.ASSIGN {
			for _, l := range as.Lhs {
				if sel, ok := l.(*ast.SelectorExpr); ok {
					if ix, ok := sel.X.(*ast.IndexExpr); ok && isIdent(ix.X, g.sliceVar) && isIdent(ix.Index, g.idxVar) {
						allowed[ix.X.(*ast.Ident)] = true
					}
				}
			}
		}
		return true
	})
	ok := true
	ast.Inspect(body, func(n ast.Node) bool {
		if id, isId := n.(*ast.Ident); isId && id.Name == g.sliceVar && !allowed[id] {
			ok = false
		}
		return true
	})
	return ok
}

func (g *spl) loopCond(e ast.Expr) string {
	b, ok := e.(*ast.BinaryExpr)
	if !ok {
		return g.fail("condition %s", goText(e))
	}
	op := ""
	switch b.Op {
	case token.EQL:
		op = "="
	case token.NEQ:
		op = "≠"
	default:
		return g.fail("condition %s", goText(e))
	}
	lit, ok := b.Y.(*ast.BasicLit)
	if !ok {
		return g.fail("condition %s", goText(e))
	}
	if isIdent(b.X, g.inputVar) && lit.Kind == token.STRING {
		return "decide (" + g.inputVar + " " + op + " (Go.str " + leanStr(unquote(lit)) + "))"
	}
	if c := callOf(b.X, "len"); c != nil && len(c.Args) == 1 && isIdent(c.Args[0], g.inputVar) && lit.Kind == token.INT {
		return "decide ((Go.len " + g.inputVar + ") " + op + " " + lit.Value + ")"
	}
	if isIdent(b.X, g.idxVar) && lit.Kind == token.INT {
		return "decide (" + g.idxVar + " " + op + " " + lit.Value + ")"
	}
	return g.fail("condition %s", goText(e))
}

func translateNewSplicer(g0 *glue, root string) {
	f := parseFile(root, "splicer/splicer.go")
	g := &spl{glue: g0, fields: map[string]string{}, wraps: map[string]bool{}, narrowed: map[string]string{}}
	/* the element type */
	for _, d := range f.Decls {
		gd, ok := d.(*ast.GenDecl)
		if !ok || gd.Tok != token.TYPE {
			continue
		}
		for _, sp := range gd.Specs {
			ts := sp.(*ast.TypeSpec)
			if ts.Name.Name != "Splicer" {
				continue
			}
			if at, ok := ts.Type.(*ast.ArrayType); ok && at.Len == nil {
				if st, ok := at.Elt.(*ast.StructType); ok {
					for _, fl := range st.Fields.List {
						for _, n := range fl.Names {
							g.fields[n.Name] = goText(fl.Type)
						}
					}
				}
			}
		}
	}
	fd := findFunc(f, "", "NewSplicer")
	if fd == nil || len(g.fields) == 0 {
		g.line(0, g.fail("splicer.NewSplicer or the type Splicer not found"))
		return
	}
	ns, ts := paramNames(fd)
	rt := resultTypes(fd)
	if len(ns) != 1 || ts[0] != "[]string" || len(rt) != 1 || rt[0] != "*Splicer" {
		g.line(0, g.fail("signature of NewSplicer: %s", goText(fd.Type)))
		return
	}
	inputs := ns[0]

	/* first pass over the body, into a buffer: the closure is emitted before the function */
	var main strings.Builder
	var closures []string
	ml := func(ind int, s string) { main.WriteString(strings.Repeat("  ", ind) + s + "\n") }
	waited := false
	returned := false
	for _, st := range fd.Body.List {
		if returned {
			ml(1, g.fail("statement after the return"))
			break
		}
		switch x := st.(type) {
		case *ast.AssignStmt:
			ok := false
			if x.Tok == token.DEFINE && len(x.Lhs) == 1 && len(x.Rhs) == 1 && g.sliceVar == "" {
				if id, isId := x.Lhs[0].(*ast.Ident); isId {
					if c := callOf(x.Rhs[0], "make"); c != nil && len(c.Args) == 2 && isIdent(c.Args[0], "Splicer") {
						if l := callOf(c.Args[1], "len"); l != nil && len(l.Args) == 1 && isIdent(l.Args[0], inputs) {
							g.sliceVar = id.Name
							ml(1, "let mut "+id.Name+" : GenSplicer.Splicer Container Tangible := (← Go.make (Go.len "+inputs+"))")
							ok = true
						}
					}
				}
			}
			if !ok {
				ml(1, g.fail("statement %s", goText(x)))
			}
		case *ast.DeclStmt:
			ok := false
			if gd, isG := x.Decl.(*ast.GenDecl); isG && gd.Tok == token.VAR && len(gd.Specs) == 1 {
				vs := gd.Specs[0].(*ast.ValueSpec)
				if len(vs.Names) == 1 && len(vs.Values) == 0 && vs.Type != nil && goText(vs.Type) == "sync.WaitGroup" && g.wgVar == "" {
					g.wgVar = vs.Names[0].Name
					ml(1, "let mut "+g.wgVar+" : Int := 0  -- var "+g.wgVar+" sync.WaitGroup: its counter")
					ok = true
				}
			}
			if !ok {
				ml(1, g.fail("declaration %s", goText(x)))
			}
		case *ast.RangeStmt:
			key, isK := x.Key.(*ast.Ident)
			val, isV := x.Value.(*ast.Ident)
			if !isK || !isV || x.Tok != token.DEFINE || !isIdent(x.X, inputs) || g.sliceVar == "" || g.wgVar == "" {
				ml(1, g.fail("loop %s", goText(x.X)))
				continue
			}
			g.idxVar, g.inputVar = key.Name, val.Name
			ml(1, "-- for "+key.Name+", "+val.Name+" := range "+inputs)
			ml(1, "for "+key.Name+" in Go.indices "+inputs+" do")
			ml(2, "let "+val.Name+" ← Go.index "+inputs+" "+key.Name)
			for _, bs := range x.Body.List {
				switch y := bs.(type) {
				case *ast.AssignStmt:
					if y.Tok == token.DEFINE && len(y.Lhs) == 1 && len(y.Rhs) == 1 {
						if l, ok := y.Lhs[0].(*ast.Ident); ok && isIdent(y.Rhs[0], l.Name) && (l.Name == key.Name || l.Name == val.Name) {
							ml(2, "-- "+goText(y)+" (the iteration's own copy)")
							continue
						}
					}
					ml(2, g.fail("statement %s", goText(y)))
				case *ast.IfStmt:
					if y.Init == nil && y.Else == nil && len(y.Body.List) == 1 {
						if br, ok := y.Body.List[0].(*ast.BranchStmt); ok && br.Tok == token.CONTINUE && br.Label == nil {
							ml(2, "if "+g.loopCond(y.Cond)+" then")
							ml(3, "continue")
							continue
						}
					}
					ml(2, g.fail("statement %s", goText(y)))
				case *ast.ExprStmt:
					c, ok := y.X.(*ast.CallExpr)
					if ok && goText(c.Fun) == g.wgVar+".Add" && len(c.Args) == 1 {
						if lit, ok := c.Args[0].(*ast.BasicLit); ok && lit.Kind == token.INT {
							ml(2, g.wgVar+" := "+g.wgVar+" + "+lit.Value+"  -- "+goText(y))
							continue
						}
					}
					ml(2, g.fail("statement %s", goText(y)))
				case *ast.GoStmt:
					fl, ok := y.Call.Fun.(*ast.FuncLit)
					if !ok || len(y.Call.Args) != 0 || len(fl.Type.Params.List) != 0 || fl.Type.Results != nil {
						ml(2, g.fail("go statement %s", goText(y.Call.Fun)))
						continue
					}
					if !g.closureTouchesOnlyCell(fl.Body) {
						ml(2, g.fail("the goroutine mentions %s other than as the target %s[%s].field of an assignment", g.sliceVar, g.sliceVar, g.idxVar))
						continue
					}
					name := "NewSplicer_go" + strconv.Itoa(len(closures)+1)
					var cb strings.Builder
					g.out = &cb
					for _, cs := range fl.Body.List {
						g.closureStmt(1, cs)
					}
					g.out = nil
					body := cb.String()
					closures = append(closures, name+"\x00"+body)
					ml(2, "-- go func() { … }(): runs to its end before "+g.wgVar+".Wait() can return only if it calls "+g.wgVar+".Done();")
					ml(2, "-- it writes "+g.sliceVar+"["+key.Name+"] alone (checked), so the goroutines commute: run in index order")
					ml(2, "let r ← "+name+" X "+val.Name+" (← Go.index "+g.sliceVar+" "+key.Name+")")
					ml(2, g.sliceVar+" ← Go.modify "+g.sliceVar+" "+key.Name+" (fun _ => r.1)")
					ml(2, g.wgVar+" := "+g.wgVar+" - r.2")
				default:
					ml(2, g.fail("statement %s", goText(bs)))
				}
			}
		case *ast.ExprStmt:
			if c, ok := x.X.(*ast.CallExpr); ok && g.wgVar != "" && goText(c.Fun) == g.wgVar+".Wait" {
				waited = true
				ml(1, "-- "+g.wgVar+".Wait(): returns when the counter is 0 (blocks for ever above 0, panics below); the counter it sees is the second result")
				continue
			}
			ml(1, g.fail("statement %s", goText(x)))
		case *ast.ReturnStmt:
			returned = true
			if len(x.Results) == 1 {
				if u, ok := x.Results[0].(*ast.UnaryExpr); ok && u.Op == token.AND && isIdent(u.X, g.sliceVar) && g.wgVar != "" {
					if !waited {
						ml(1, g.fail("the result is returned with no %s.Wait() before it: goroutines may still be writing it", g.wgVar))
						continue
					}
					ml(1, "return ("+g.sliceVar+", "+g.wgVar+")")
					continue
				}
			}
			ml(1, g.fail("return %s", goText(x)))
		default:
			ml(1, g.fail("statement %s", goText(st)))
		}
	}
	if !returned {
		ml(1, g.fail("NewSplicer does not end in a return"))
	}

	/* the method sets that decide whether two cases of the type switch can both match */
	ifaceMethods := []string{}
	if itf := parseFile(root, "pub/interfaces.go"); itf != nil {
		for _, d := range itf.Decls {
			gd, ok := d.(*ast.GenDecl)
			if !ok || gd.Tok != token.TYPE {
				continue
			}
			for _, sp := range gd.Specs {
				tsp := sp.(*ast.TypeSpec)
				if it, ok := tsp.Type.(*ast.InterfaceType); ok && tsp.Name.Name == "Tangible" {
					for _, m := range it.Methods.List {
						if len(m.Names) == 0 {
							ifaceMethods = append(ifaceMethods, "embedded "+goText(m.Type))
						}
						for _, n := range m.Names {
							ifaceMethods = append(ifaceMethods, n.Name)
						}
					}
				}
			}
		}
	}
	methodsOf := map[string][]string{}
	pubFiles, _ := filepath.Glob(filepath.Join(root, "pub", "*.go"))
	sort.Strings(pubFiles)
	for _, pf := range pubFiles {
		if strings.HasSuffix(pf, "_test.go") {
			continue
		}
		rel, _ := filepath.Rel(root, pf)
		pfile := parseFile(root, rel)
		for _, d := range pfile.Decls {
			if fd, ok := d.(*ast.FuncDecl); ok && fd.Recv != nil && len(fd.Recv.List) == 1 {
				r := strings.TrimPrefix(exprString(fd.Recv.List[0].Type), "*")
				methodsOf[r] = append(methodsOf[r], fd.Name.Name)
			}
		}
	}

	params := "V Container Tangible"
	concrete := []string{}
	for _, t := range g.caseTypes {
		if t != "pub.Tangible" && t != "pub.Container" {
			concrete = append(concrete, t)
			params += " " + caseTypeName(t)
		}
	}
	g.line(0, "/-- the methods `pub.Tangible` asks for (pub/interfaces.go) -/")
	g.line(0, "def tangibleMethods : List String := "+leanList(ifaceMethods))
	g.line(0, "")
	for _, t := range concrete {
		ms := methodsOf[caseTypeName(t)]
		sort.Strings(ms)
		g.line(0, "/-- the methods declared on `"+t+"` in package pub: a value of that type matches `case pub.Tangible` iff all of `tangibleMethods` are among them -/")
		g.line(0, "def methods_"+caseTypeName(t)+" : List String := "+leanList(ms))
		g.line(0, "")
	}
	g.line(0, "/-- what `NewSplicer` calls and tests outside splicer.go; `V` is the dynamic value `pub.FetchUserInput` returns -/")
	g.line(0, "structure Ext ("+params+" : Type) where")
	g.line(1, "FetchUserInput : Str → V")
	for _, t := range g.caseTypes {
		n := caseTypeName(t)
		g.line(1, "/-- `v.("+t+")`: the value if its dynamic type matches -/")
		g.line(1, "as_"+n+" : V → Option "+n)
	}
	if g.usesNil {
		g.line(1, "isNil : V → Bool")
	}
	if g.usesChild {
		g.line(1, "/-- `pub.Tangible.Children()`: a `pub.Container`, nil = `none` -/")
		g.line(1, "Children : Tangible → Option Container")
	}
	wr := []string{}
	for t := range g.wraps {
		wr = append(wr, t)
	}
	sort.Strings(wr)
	for _, t := range wr {
		g.line(1, "/-- a `"+t+"` seen as a `pub.Container` -/")
		g.line(1, caseTypeName(t)+"_asContainer : "+caseTypeName(t)+" → Container")
	}
	g.line(0, "")
	g.line(0, "variable {"+params+" : Type}")
	g.line(0, "")
	for _, c := range closures {
		p := strings.SplitN(c, "\x00", 2)
		g.line(0, "/-- the goroutine `NewSplicer` starts for one input: `cell0` is `"+g.sliceVar+"["+g.idxVar+"]` as it finds it, the first result the")
		g.line(0, "    cell as it leaves it, the second the number of `"+g.wgVar+".Done()` executed on the path taken -/")
		g.line(0, "def "+p[0]+" (X : Ext "+params+") ("+g.inputVar+" : Str) (cell0 : GenSplicer.Source Container Tangible) :")
		g.line(2, "Except Panic (GenSplicer.Source Container Tangible × Nat) := do")
		g.line(1, "let mut cell := cell0")
		g.line(1, "let mut done : Nat := 0")
		g.b.WriteString(p[1])
		g.line(1, "return (cell, done)")
		g.line(0, "")
	}
	g.line(0, "/-- `NewSplicer`: the slice, and the counter of the WaitGroup at `Wait()` (Wait returns iff it is 0) -/")
	g.line(0, "def NewSplicer (X : Ext "+params+") ("+inputs+" : List Str) :")
	g.line(2, "Except Panic (GenSplicer.Splicer Container Tangible × Int) := do")
	g.b.WriteString(main.String())
	g.line(0, "")
}

/* ---------- (b) GetMarkup ---------- */

var translatedAccessors = map[string]bool{"GetAny": true, "GetString": true, "GetNumber": true, "GetObject": true, "GetList": true, "GetTime": true, "GetURL": true, "GetMediaType": true}

func isErrReturn(st ast.Stmt, errVar string, n int) bool {
	r, ok := st.(*ast.ReturnStmt)
	if !ok || len(r.Results) != n {
		return false
	}
	for i := 0; i < n-1; i++ {
		if !isIdent(r.Results[i], "nil") {
			if cl, ok := r.Results[i].(*ast.CompositeLit); !ok || len(cl.Elts) != 0 {
				return false
			}
		}
	}
	return isIdent(r.Results[n-1], errVar)
}

/* `if err != nil { return nil, …, err }` */
func isErrGuard(e ast.Node, errVar string, n int) bool {
	s, ok := e.(*ast.IfStmt)
	if !ok || s.Init != nil || s.Else != nil || len(s.Body.List) != 1 {
		return false
	}
	return goText(s.Cond) == errVar+" != nil" && isErrReturn(s.Body.List[0], errVar, n)
}

func translateGetMarkup(g *glue, root string) {
	f := parseFile(root, "object/object.go")
	fd := findFunc(f, "Object", "GetMarkup")
	if fd == nil {
		g.line(0, g.fail("object.GetMarkup not found"))
		return
	}
	ns, ts := paramNames(fd)
	rt := resultTypes(fd)
	if len(ns) != 2 || ts[0] != "string" || ts[1] != "string" || len(rt) != 3 || rt[2] != "error" || recvName(fd) == "" {
		g.line(0, g.fail("signature of GetMarkup: %s", goText(fd.Type)))
		return
	}
	recv := recvName(fd)
	known := map[string]bool{ns[0]: true, ns[1]: true}
	var body strings.Builder
	bl := func(ind int, s string) { body.WriteString(strings.Repeat("  ", ind) + s + "\n") }
	ind := 1
	types := map[string]string{}
	var ctors []string
	var sw *ast.SwitchStmt
	list := fd.Body.List
	i := 0
	for ; i < len(list); i++ {
		if s, ok := list[i].(*ast.SwitchStmt); ok {
			sw = s
			break
		}
		as, ok := list[i].(*ast.AssignStmt)
		if !ok || len(as.Lhs) != 2 || len(as.Rhs) != 1 || i+1 >= len(list) {
			bl(ind, g.fail("statement %s", goText(list[i])))
			continue
		}
		v, ok1 := as.Lhs[0].(*ast.Ident)
		e, ok2 := as.Lhs[1].(*ast.Ident)
		c, ok3 := as.Rhs[0].(*ast.CallExpr)
		if !ok1 || !ok2 || !ok3 || len(c.Args) != 1 {
			bl(ind, g.fail("statement %s", goText(as)))
			continue
		}
		sel, ok := c.Fun.(*ast.SelectorExpr)
		arg, okA := c.Args[0].(*ast.Ident)
		if !ok || !okA || !isIdent(sel.X, recv) || !translatedAccessors[sel.Sel.Name] || !known[arg.Name] {
			bl(ind, g.fail("call %s: not a translated accessor of the receiver on a parameter", goText(c)))
			continue
		}
		call := "(GenObject." + sel.Sel.Name + " L " + recv + " " + arg.Name + ")"
		types[v.Name] = sel.Sel.Name
		next := list[i+1]
		i++
		if isErrGuard(next, e.Name, 3) {
			bl(ind, "match "+call+" with")
			bl(ind, "| .error "+e.Name+" =>")
			bl(ind+1, ".error "+e.Name)
			bl(ind, "| .ok "+v.Name+" =>")
			ind++
			known[v.Name] = true
			continue
		}
		/* if errors.Is(err, ErrKeyNotPresent) { v = mime.F() } else if err != nil { return nil, nil, err } */
		ifs, ok := next.(*ast.IfStmt)
		dflt := ""
		if ok && ifs.Init == nil && goText(ifs.Cond) == "errors.Is("+e.Name+", ErrKeyNotPresent)" && len(ifs.Body.List) == 1 && ifs.Else != nil && isErrGuard(ifs.Else, e.Name, 3) {
			if a, ok := ifs.Body.List[0].(*ast.AssignStmt); ok && a.Tok == token.ASSIGN && len(a.Lhs) == 1 && len(a.Rhs) == 1 && isIdent(a.Lhs[0], v.Name) {
				if dc, ok := a.Rhs[0].(*ast.CallExpr); ok && len(dc.Args) == 0 && sel.Sel.Name == "GetMediaType" {
					switch goText(dc.Fun) {
					case "mime.Default":
						dflt = "Mime.default"
					case "mime.Unknown":
						dflt = "Mime.unknown"
					}
				}
			}
		}
		if dflt == "" {
			bl(ind, g.fail("what follows %s is neither `if %s != nil { return nil, nil, %s }` nor the default-when-absent form: %s", goText(as), e.Name, e.Name, goText(next)))
			continue
		}
		bl(ind, "-- "+goText(as)+"; when the key is absent: "+goText(ifs.Body.List[0]))
		bl(ind, "match ((match "+call+" with")
		bl(ind+3, "| .error Obj.Err.absent => .ok "+dflt)
		bl(ind+3, "| r => r) : Obj.R Mime.MediaType) with")
		bl(ind, "| .error "+e.Name+" =>")
		bl(ind+1, ".error "+e.Name)
		bl(ind, "| .ok "+v.Name+" =>")
		ind++
		known[v.Name] = true
	}
	msg := ""
	if sw == nil || i != len(list)-1 {
		bl(ind, g.fail("GetMarkup does not end in a switch"))
	} else {
		tag := ""
		if sel, ok := sw.Tag.(*ast.SelectorExpr); ok && sw.Init == nil {
			if id, ok := sel.X.(*ast.Ident); ok && types[id.Name] == "GetMediaType" && known[id.Name] {
				switch sel.Sel.Name {
				case "Essence", "Supertype", "Subtype":
					tag = id.Name + "." + strings.ToLower(sel.Sel.Name)
				}
			}
		}
		if tag == "" {
			bl(ind, g.fail("switch on %s", goText(sw.Tag)))
		} else {
			bl(ind, "-- switch "+goText(sw.Tag))
			var def *ast.CaseClause
			kw := "if"
			for _, cs := range sw.Body.List {
				cc := cs.(*ast.CaseClause)
				if cc.List == nil {
					def = cc
					continue
				}
				conds := []string{}
				for _, l := range cc.List {
					lit, ok := l.(*ast.BasicLit)
					if !ok || lit.Kind != token.STRING {
						conds = append(conds, g.fail("case %s", goText(l)))
						continue
					}
					conds = append(conds, "decide ("+tag+" = (Go.str "+leanStr(unquote(lit))+"))")
				}
				bl(ind, kw+" "+strings.Join(conds, " || ")+" then")
				kw = "else if"
				bl(ind+1, getMarkupReturn(g, cc.Body, known, &ctors, &msg))
			}
			if kw == "if" {
				bl(ind, g.fail("a switch without cases"))
			} else {
				bl(ind, "else")
				if def == nil {
					bl(ind+1, g.fail("a switch without default: the function would end without a return"))
				} else {
					bl(ind+1, getMarkupReturn(g, def.Body, known, &ctors, &msg))
				}
			}
		}
	}
	g.line(0, "/-- the constructors `GetMarkup` hands the content to, in the order of its switch -/")
	g.line(0, "inductive Ctor where")
	for _, c := range ctors {
		g.line(1, "| "+c)
	}
	if len(ctors) == 0 {
		g.line(1, "| none_")
	}
	g.line(1, "deriving Repr, DecidableEq")
	g.line(0, "")
	g.line(0, "/-- the text `GetMarkup` gives `errors.New` (before the media type) -/")
	g.line(0, "def GetMarkup_errorText : String := "+leanStr(msg))
	g.line(0, "")
	g.line(0, "/-- `GetMarkup`: `.ok (k, x)` is `return k(x)` — all three results of the constructor `k` applied to `x` are passed on -/")
	g.line(0, "def GetMarkup {Time Url : Type} (L : Obj.Libs Time Url) ("+recv+" : List (Str × JVal)) ("+ns[0]+" : Str) ("+ns[1]+" : Str) : Obj.R (Ctor × Str) :=")
	g.b.WriteString(body.String())
	g.line(0, "")
}

func getMarkupReturn(g *glue, body []ast.Stmt, known map[string]bool, ctors *[]string, msg *string) string {
	if len(body) != 1 {
		return g.fail("a case that is not a single return")
	}
	r, ok := body[0].(*ast.ReturnStmt)
	if !ok {
		return g.fail("a case that is not a single return")
	}
	if len(r.Results) == 1 {
		c, ok := r.Results[0].(*ast.CallExpr)
		if ok && len(c.Args) == 1 {
			if sel, ok := c.Fun.(*ast.SelectorExpr); ok {
				if pk, ok := sel.X.(*ast.Ident); ok {
					if a, ok := c.Args[0].(*ast.Ident); ok && known[a.Name] {
						name := pk.Name + "_" + sel.Sel.Name
						seen := false
						for _, k := range *ctors {
							seen = seen || k == name
						}
						if !seen {
							*ctors = append(*ctors, name)
						}
						return ".ok (Ctor." + name + ", " + a.Name + ")"
					}
				}
			}
		}
		return g.fail("return %s", goText(r))
	}
	if len(r.Results) == 3 && isIdent(r.Results[0], "nil") && isIdent(r.Results[1], "nil") {
		if c := callOf(r.Results[2], "errors.New"); c != nil && len(c.Args) == 1 {
			var parts []string
			flattenConcat(c.Args[0], &parts)
			if len(parts) > 0 {
				*msg = parts[0]
			}
			return ".error Obj.Err.wrong"
		}
		if isIdent(r.Results[2], "ErrKeyNotPresent") {
			return ".error Obj.Err.absent"
		}
	}
	return g.fail("return %s", goText(r))
}

/* ---------- (c) the two constructors with an external parser ---------- */

func translateHyperNew(g *glue, root string) {
	f := parseFile(root, "hypertext/hypertext.go")
	fd := findFunc(f, "", "NewMarkup")
	if fd == nil {
		g.line(0, g.fail("hypertext.NewMarkup not found"))
		return
	}
	ns, ts := paramNames(fd)
	rt := resultTypes(fd)
	if len(ns) != 1 || ts[0] != "string" || len(rt) != 3 || rt[0] != "*Markup" || rt[1] != "[]string" || rt[2] != "error" {
		g.line(0, g.fail("signature of hypertext.NewMarkup: %s", goText(fd.Type)))
		return
	}
	text := ns[0]
	l := fd.Body.List
	var out strings.Builder
	ol := func(ind int, s string) { out.WriteString(strings.Repeat("  ", ind) + s + "\n") }
	parseCall := ""
	if len(l) != 4 {
		ol(1, g.fail("hypertext.NewMarkup: %d statements where 4 are expected (parse; error test; first render; return)", len(l)))
	} else {
		/* 1+2: nodes, err := html.ParseFragment(strings.NewReader(text), ctx); if err != nil { return nil, []string{}, err } */
		as, ok := l[0].(*ast.AssignStmt)
		nodes, errV := "", ""
		if ok && as.Tok == token.DEFINE && len(as.Lhs) == 2 && len(as.Rhs) == 1 {
			n, ok1 := as.Lhs[0].(*ast.Ident)
			e, ok2 := as.Lhs[1].(*ast.Ident)
			c, ok3 := as.Rhs[0].(*ast.CallExpr)
			if ok1 && ok2 && ok3 && len(c.Args) >= 1 && strings.HasPrefix(goText(c.Fun), "html.") {
				if rd := callOf(c.Args[0], "strings.NewReader"); rd != nil && len(rd.Args) == 1 && isIdent(rd.Args[0], text) {
					nodes, errV = n.Name, e.Name
					parseCall = goText(c)
				}
			}
		}
		if nodes == "" || !isErrGuard(l[1], errV, 3) {
			ol(1, g.fail("hypertext.NewMarkup does not start with `nodes, err := html.…(strings.NewReader(%s), …)` and the test of err", text))
		} else {
			ol(1, "-- "+goText(l[0]))
			ol(1, "match parse "+text+" with")
			ol(1, "| .error "+errV+" =>")
			ol(2, "return .error "+errV+"  -- "+goText(l[1].(*ast.IfStmt).Body.List[0]))
			ol(1, "| .ok "+nodes+" =>")
			/* 3: rendered, links := renderWithLinks(nodes, 80) */
			vals := map[string]bool{nodes: true}
			arg := func(e ast.Expr) string {
				if id, ok := e.(*ast.Ident); ok && vals[id.Name] {
					return id.Name
				}
				if lit, ok := e.(*ast.BasicLit); ok && lit.Kind == token.INT {
					return lit.Value
				}
				return g.fail("value %s", goText(e))
			}
			rs, ok := l[2].(*ast.AssignStmt)
			okR := false
			if ok && rs.Tok == token.DEFINE && len(rs.Lhs) == 2 && len(rs.Rhs) == 1 {
				a, ok1 := rs.Lhs[0].(*ast.Ident)
				b, ok2 := rs.Lhs[1].(*ast.Ident)
				c := callOf(rs.Rhs[0], "renderWithLinks")
				if ok1 && ok2 && c != nil && len(c.Args) == 2 {
					ol(2, "let r1_ ← GenHypertext.renderWithLinks c expand W "+arg(c.Args[0])+" "+arg(c.Args[1]))
					if a.Name != "_" {
						ol(2, "let "+a.Name+" : Str := r1_.1")
						vals[a.Name] = true
					}
					if b.Name != "_" {
						ol(2, "let "+b.Name+" : List Str := r1_.2")
						vals[b.Name] = true
					}
					okR = true
				}
			}
			if !okR {
				ol(2, g.fail("statement %s", goText(l[2])))
			}
			/* 4: return &Markup{…}, links, nil */
			ret, ok := l[3].(*ast.ReturnStmt)
			okT := false
			if ok && len(ret.Results) == 3 && isIdent(ret.Results[2], "nil") {
				if u, ok := ret.Results[0].(*ast.UnaryExpr); ok && u.Op == token.AND {
					if cl, ok := u.X.(*ast.CompositeLit); ok && isIdent(cl.Type, "Markup") {
						fs := []string{}
						for _, el := range cl.Elts {
							kv, ok := el.(*ast.KeyValueExpr)
							if !ok {
								fs = append(fs, g.fail("field %s", goText(el)))
								continue
							}
							fs = append(fs, goText(kv.Key)+" := "+arg(kv.Value))
						}
						ol(2, "return .ok (({ "+strings.Join(fs, ", ")+" } : GenHypertext.Markup), "+arg(ret.Results[1])+")")
						okT = true
					}
				}
			}
			if !okT {
				ol(2, g.fail("statement %s", goText(l[3])))
			}
		}
	}
	g.line(0, "/-- the call of the external parser in `hypertext.NewMarkup`, as written -/")
	g.line(0, "def hypertext_parseCall : String := "+leanStr(parseCall))
	g.line(0, "")
	g.line(0, "/-- `hypertext.NewMarkup`; `parse` is the external parser applied to the text (`hypertext_parseCall`): its error, or the nodes -/")
	g.line(0, "def hypertext_NewMarkup {E : Type} (c : Colors) (expand : Str → List Go.Match) (W : GenHypertext.Ext) (parse : Str → Except E (List Go.Html.Node)) ("+text+" : Str) :")
	g.line(2, "Except Panic (Except E (GenHypertext.Markup × List Str)) := do")
	g.b.WriteString(out.String())
	g.line(0, "")
}

func translateMarkdownNew(g *glue, root string) {
	f := parseFile(root, "markdown/markdown.go")
	fd := findFunc(f, "", "NewMarkup")
	if fd == nil {
		g.line(0, g.fail("markdown.NewMarkup not found"))
		return
	}
	ns, ts := paramNames(fd)
	rt := resultTypes(fd)
	if len(ns) != 1 || ts[0] != "string" || len(rt) != 3 || rt[0] != "*hypertext.Markup" || rt[1] != "[]string" || rt[2] != "error" {
		g.line(0, g.fail("signature of markdown.NewMarkup: %s", goText(fd.Type)))
		return
	}
	text := ns[0]
	renderer := ""
	for _, d := range f.Decls {
		if gd, ok := d.(*ast.GenDecl); ok && gd.Tok == token.VAR {
			for _, sp := range gd.Specs {
				vs := sp.(*ast.ValueSpec)
				if len(vs.Names) == 1 && vs.Names[0].Name == "renderer" && len(vs.Values) == 1 {
					renderer = goText(vs.Values[0])
				}
			}
		}
	}
	l := fd.Body.List
	var out strings.Builder
	ol := func(ind int, s string) { out.WriteString(strings.Repeat("  ", ind) + s + "\n") }
	convCall := ""
	okAll := false
	if len(l) == 4 {
		buf := ""
		if ds, ok := l[0].(*ast.DeclStmt); ok {
			if gd, ok := ds.Decl.(*ast.GenDecl); ok && gd.Tok == token.VAR && len(gd.Specs) == 1 {
				vs := gd.Specs[0].(*ast.ValueSpec)
				if len(vs.Names) == 1 && len(vs.Values) == 0 && vs.Type != nil && goText(vs.Type) == "bytes.Buffer" {
					buf = vs.Names[0].Name
				}
			}
		}
		ifs, ok := l[1].(*ast.IfStmt)
		errV := ""
		if buf != "" && ok && ifs.Init != nil && ifs.Else == nil && len(ifs.Body.List) == 1 {
			if as, ok := ifs.Init.(*ast.AssignStmt); ok && as.Tok == token.DEFINE && len(as.Lhs) == 1 && len(as.Rhs) == 1 {
				if e, ok := as.Lhs[0].(*ast.Ident); ok {
					if c := callOf(as.Rhs[0], "renderer.Convert"); c != nil && len(c.Args) == 2 &&
						goText(c.Args[0]) == "[]byte("+text+")" && goText(c.Args[1]) == "&"+buf &&
						goText(ifs.Cond) == e.Name+" != nil" && isErrReturn(ifs.Body.List[0], e.Name, 3) {
						errV = e.Name
						convCall = goText(c)
					}
				}
			}
		}
		if errV != "" {
			ol(1, "-- "+goText(l[0]))
			ol(1, "-- "+goText(ifs.Init)+": the error, or what "+buf+" holds afterwards")
			ol(1, "match convert "+text+" with")
			ol(1, "| .error "+errV+" =>")
			ol(2, "return .error "+errV+"  -- "+goText(ifs.Body.List[0]))
			ol(1, "| .ok "+buf+" =>")
			vals := map[string]bool{text: true}
			as, ok := l[2].(*ast.AssignStmt)
			if ok && as.Tok == token.DEFINE && len(as.Lhs) == 1 && len(as.Rhs) == 1 {
				if o, ok := as.Lhs[0].(*ast.Ident); ok {
					if c := callOf(as.Rhs[0], buf+".String"); c != nil && len(c.Args) == 0 {
						ol(2, "let "+o.Name+" : Str := "+buf+"  -- "+goText(as))
						vals[o.Name] = true
						if ret, ok := l[3].(*ast.ReturnStmt); ok && len(ret.Results) == 1 {
							if c := callOf(ret.Results[0], "hypertext.NewMarkup"); c != nil && len(c.Args) == 1 {
								if a, ok := c.Args[0].(*ast.Ident); ok && vals[a.Name] {
									ol(2, "hypertext_NewMarkup "+a.Name+"  -- "+goText(ret))
									okAll = true
								}
							}
						}
					}
				}
			}
		}
	}
	if !okAll {
		ol(1, g.fail("markdown.NewMarkup is not `var buf bytes.Buffer; if err := renderer.Convert([]byte(%s), &buf); err != nil { return nil, []string{}, err }; output := buf.String(); return hypertext.NewMarkup(…)`", text))
	}
	g.line(0, "/-- the converter of markdown/markdown.go, as written -/")
	g.line(0, "def markdown_renderer : String := "+leanStr(renderer))
	g.line(0, "")
	g.line(0, "/-- the call of the converter in `markdown.NewMarkup`, as written -/")
	g.line(0, "def markdown_convertCall : String := "+leanStr(convCall))
	g.line(0, "")
	g.line(0, "/-- `markdown.NewMarkup`; `convert` is the external converter applied to the text (`markdown_convertCall`): its error, or")
	g.line(0, "    what the buffer holds afterwards; `hypertext_NewMarkup` is the constructor of package hypertext -/")
	g.line(0, "def markdown_NewMarkup {E R : Type} (convert : Str → Except E Str) (hypertext_NewMarkup : Str → Except Panic (Except E R)) ("+text+" : Str) :")
	g.line(2, "Except Panic (Except E R) := do")
	g.b.WriteString(out.String())
	g.line(0, "")
}

/* ---------- (d) superscript ---------- */

func runeLit(e ast.Expr) (string, bool) {
	lit, ok := e.(*ast.BasicLit)
	if !ok || lit.Kind != token.CHAR {
		return "", false
	}
	s, err := strconv.Unquote(lit.Value)
	if err != nil {
		return "", false
	}
	r := []rune(s)
	if len(r) != 1 {
		return "", false
	}
	return fmt.Sprintf("(Char.ofNat 0x%04X)", r[0]), true
}

func translateSuperscript(g *glue, root string) {
	f := parseFile(root, "style/style.go")
	fd := findFunc(f, "", "superscript")
	if fd == nil {
		g.line(0, g.fail("style.superscript not found"))
		return
	}
	ns, ts := paramNames(fd)
	rt := resultTypes(fd)
	if len(ns) != 1 || ts[0] != "int" || len(rt) != 1 || rt[0] != "string" {
		g.line(0, g.fail("signature of superscript: %s", goText(fd.Type)))
		return
	}
	value := ns[0]
	l := fd.Body.List
	var mapping, out strings.Builder
	ml := func(ind int, s string) { mapping.WriteString(strings.Repeat("  ", ind) + s + "\n") }
	ol := func(ind int, s string) { out.WriteString(strings.Repeat("  ", ind) + s + "\n") }
	okAll := false
	in := "input"
	if len(l) == 2 {
		as, ok := l[0].(*ast.AssignStmt)
		text := ""
		if ok && as.Tok == token.DEFINE && len(as.Lhs) == 1 && len(as.Rhs) == 1 {
			if t, ok := as.Lhs[0].(*ast.Ident); ok {
				if c := callOf(as.Rhs[0], "strconv.Itoa"); c != nil && len(c.Args) == 1 && isIdent(c.Args[0], value) {
					text = t.Name
					ol(1, "let "+text+" : Str := (Go.Strconv.itoaStr "+value+")  -- "+goText(as))
				}
			}
		}
		ret, ok := l[1].(*ast.ReturnStmt)
		if text != "" && ok && len(ret.Results) == 1 {
			if c := callOf(ret.Results[0], "strings.Map"); c != nil && len(c.Args) == 2 {
				fl, ok := c.Args[0].(*ast.FuncLit)
				subject := ""
				if isIdent(c.Args[1], text) {
					subject = text
				} else if sl, ok := c.Args[1].(*ast.SliceExpr); ok && isIdent(sl.X, text) && sl.High == nil && sl.Max == nil && sl.Low != nil {
					/* the text is what strconv.Itoa made: ASCII, so a byte offset is a rune offset */
					if lit, ok := sl.Low.(*ast.BasicLit); ok && lit.Kind == token.INT {
						subject = "(← Go.sliceFrom " + text + " " + lit.Value + ")"
					}
				}
				if ok && subject != "" && len(fl.Type.Params.List) == 1 && len(fl.Type.Params.List[0].Names) == 1 &&
					goText(fl.Type.Params.List[0].Type) == "rune" && fl.Type.Results != nil && len(fl.Type.Results.List) == 1 &&
					goText(fl.Type.Results.List[0].Type) == "rune" && len(fl.Body.List) == 1 {
					in = fl.Type.Params.List[0].Names[0].Name
					if sw, ok := fl.Body.List[0].(*ast.SwitchStmt); ok && sw.Init == nil && isIdent(sw.Tag, in) {
						okAll = true
						ol(1, "Go.Strings.mapRunes superscript_map "+subject+"  -- "+"return strings.Map(func…, "+goText(c.Args[1])+")")
						ml(1, "-- switch "+in+": the cases in order")
						var def *ast.CaseClause
						one := func(body []ast.Stmt) string {
							if len(body) == 1 {
								if r, ok := body[0].(*ast.ReturnStmt); ok && len(r.Results) == 1 {
									if s, ok := runeLit(r.Results[0]); ok {
										return "return " + s
									}
								}
								if es, ok := body[0].(*ast.ExprStmt); ok {
									if p := callOf(es.X, "panic"); p != nil && len(p.Args) == 1 {
										if lit, ok := p.Args[0].(*ast.BasicLit); ok && lit.Kind == token.STRING {
											return "throw (Panic.explicit " + leanStr(unquote(lit)) + ")"
										}
									}
								}
							}
							return g.fail("a case of the mapping that is neither `return 'c'` nor `panic(\"…\")`")
						}
						for _, cs := range sw.Body.List {
							cc := cs.(*ast.CaseClause)
							if cc.List == nil {
								def = cc
								continue
							}
							conds := []string{}
							for _, e := range cc.List {
								if s, ok := runeLit(e); ok {
									conds = append(conds, "decide ("+in+" = "+s+")")
								} else {
									conds = append(conds, g.fail("case %s", goText(e)))
								}
							}
							ml(1, "if "+strings.Join(conds, " || ")+" then")
							ml(2, one(cc.Body))
						}
						if def == nil {
							ml(1, g.fail("the mapping has no default: it would end without a return"))
						} else {
							ml(1, one(def.Body))
						}
					}
				}
			}
		}
	}
	if !okAll {
		ol(1, g.fail("superscript is not `text := strconv.Itoa(%s); return strings.Map(func(input rune) rune { switch input { … } }, text)`: %s", value, goText(fd.Body)))
	}
	g.line(0, "/-- the function `superscript` gives `strings.Map`: every result is a rune literal, so nothing is dropped -/")
	g.line(0, "def superscript_map ("+in+" : Char) : Except Panic Char := do")
	if mapping.Len() == 0 {
		g.line(1, "return "+in)
	}
	g.b.WriteString(mapping.String())
	g.line(0, "")
	g.line(0, "/-- `func superscript` -/")
	g.line(0, "def superscript ("+value+" : Int) : Except Panic Str := do")
	g.b.WriteString(out.String())
	g.line(0, "")
}

func translateGlue(root string) (string, []string) {
	g := &glue{}
	g.line(0, "set_option linter.unusedVariables false")
	g.line(0, "")
	g.line(0, "namespace GenGlue")
	g.line(0, "")
	for _, rel := range []string{"splicer/splicer.go", "object/object.go", "hypertext/hypertext.go", "markdown/markdown.go", "style/style.go", "pub/interfaces.go"} {
		if _, err := os.Stat(filepath.Join(root, rel)); err != nil {
			g.line(0, g.fail("%s: %v", rel, err))
			g.line(0, "end GenGlue")
			return g.b.String(), g.errs
		}
	}
	g.line(0, "/-! ### splicer.NewSplicer -/")
	g.line(0, "")
	g.line(0, "section")
	translateNewSplicer(g, root)
	g.line(0, "end")
	g.line(0, "")
	g.line(0, "/-! ### object.GetMarkup -/")
	g.line(0, "")
	translateGetMarkup(g, root)
	g.line(0, "/-! ### hypertext.NewMarkup, markdown.NewMarkup -/")
	g.line(0, "")
	translateHyperNew(g, root)
	translateMarkdownNew(g, root)
	g.line(0, "/-! ### style.superscript -/")
	g.line(0, "")
	translateSuperscript(g, root)
	g.line(0, "end GenGlue")
	return g.b.String(), g.errs
}
