package main

/*
go2lean, eleventh front end: the link-numbering methods of pub/post.go, pub/activity.go,
pub/actor.go (and pub/failure.go through the interface) — where an attachment gets the number
shown next to it (`supplement`) and where a typed number is turned back into a link
(`SelectLink`), plus `Media`, `ProfilePic`, `Banner` — translated to Lean terms over the structs
of pub/link.go as the fifth front end translates them (`Generated/GoLink.lean`, namespace
`GenLink`: the translated methods call the translated `Alt`, `Select`,
`SelectWithDefaultMediaType`) and over the translated style/style.go (`GenStyle.LinkBlock`).

  structs      each receiver type becomes a structure with exactly the fields the translated
               methods read, in declaration order. A field `x T` that has a companion
               `xErr error` is ONE field `x : Obj.R T'` (`.ok v` when xErr is nil). Other fields
               keep their type: `string` -> Str, `[]string` -> List Str, `*Link` -> GenLink.Link,
               `[]*Link` -> List GenLink.Link, an interface of the package -> the sum below.
  interface    a field whose type is an interface of package pub (`Tangible`) is the sum of the
               struct types of the package that have every method of the interface (by name),
               one constructor per implementer (`Tangible.post`, `.actor`, `.activity`,
               `.failure`); a struct that contains such a field and is itself an implementer
               is declared in the same `mutual` block, and its methods bind its fields by
               pattern (`| .mk a_target, input =>`), so that `a.target.M(x)` — the dynamic
               dispatch `Tangible.M`, one arm per implementer — is a structural recursion.
               Every implementer's `M` is translated.
  pair reads   `r.x` in a branch where `r.xErr` was tested to be nil is the value the match
               bound. `r.x` read WITHOUT such a test is `Go.pairVal r.x` (the value, or the zero
               value next to an error) — only for slices, and only if every assignment to
               `.x` / `.xErr` in the package is `_.x, _.xErr = f(…)` with `f` a function of the
               package all of whose error returns carry `nil` or an empty literal (checked on
               the AST of `f`, transitively through `return g(…)`); otherwise untranslatable.
  results      `(A, B, bool)` -> `Option (A' × B')`, `(A, bool)` -> `Option A'`: `…, true` is
               `some`, `…, false` is `none` and must carry zero literals (`""`, `nil`);
               `(T, error)` -> `Obj.R T'`. A function that indexes a slice, calls a function
               that can panic (`style.LinkBlock`: GenStyle's functions are in `Except Panic`) or
               dispatches to one that does returns `Except Panic (…)`; such operations are
               evaluated before the statement they occur in (`match … with | .error p_ => .error p_`).
  int          unbounded `Int`: `+`, `-`, `+=`, `-=`, comparisons (`decide`), constants, `len`
               (`Go.len`), `s[i]` = `Go.index s i` (out of range is a panic, never a default).
  strings      literals `Go.str "…"`, `+`/`+=` is `++`, `==`/`!=` is `decide`.
  errors       an error value is its class (`Obj.Err`), as in the third and fifth front ends;
               `errors.Is(e, object.ErrKeyNotPresent)` -> `decide (e = .absent)` / `Go.errIs`.
               Where the TEXT of an error is shown (`style.Problem(err)`), it is `E err` for the
               parameter `E : Obj.Err → Str` (what `err.Error()` returns);
               `fmt.Errorf("lit%wlit", err)` has the text `lit ++ E err ++ lit`.
  statements   continuation style, no joins (the rest of the block is translated once per path):
               `x := e`, `x = e`, `x += e`, `x -= e`, `if`/`else if`/`else`, `return`,
               `v, err := call` followed by `if err != nil {…}` (the body may fall through: the
               value is then only bound if the body assigned it), `for i, e := range s {…}` /
               `for _, e := range s {…}` -> a recursive `F_loop` over `Go.enumerate s` / `s`,
               `continue`.
  externals    `style.LinkBlock(t, n)` -> `GenStyle.LinkBlock c t n` (translated style.go),
               `style.Problem(err)` -> `Present.problem c (E err)`, `ansi.Wrap(t, w)` ->
               `Ansi.wrap t w`, `mime.Unknown()` / `mime.UnknownSubtype(s)` -> `Mime.*`,
               `strings.ToLower` -> `Link.lower`, methods of `*Link` -> `GenLink.*` with the
               result shape read from pub/link.go.

Everything else makes the translator emit `sorry_untranslatable`, an unknown identifier that also
contains a forbidden word: the generated file no longer builds.
*/

import (
	"fmt"
	"go/ast"
	"go/token"
	"path/filepath"
	"sort"
	"strconv"
	"strings"
)

type slField struct {
	name   string
	goType string
	pair   bool
}

type slStruct struct {
	name      string
	fields    []slField
	fieldIx   map[string]int
	read      map[string]bool
	recursive bool
	methods   map[string]*ast.FuncDecl
}

type slLoop struct {
	fn      string
	vars    []string
	restVar string
}

type slScope struct {
	order []string
	types map[string]string
	depth map[string]int
	level int
	known map[string]string // "p.attachments" -> "ok:<var>" | "err:<var>"
	loop  *slLoop
}

func newSlScope() *slScope {
	return &slScope{types: map[string]string{}, depth: map[string]int{}, known: map[string]string{}}
}

func (s *slScope) clone() *slScope {
	c := &slScope{order: append([]string{}, s.order...), types: map[string]string{}, depth: map[string]int{}, level: s.level,
		known: map[string]string{}, loop: s.loop}
	for k, v := range s.types {
		c.types[k] = v
	}
	for k, v := range s.depth {
		c.depth[k] = v
	}
	for k, v := range s.known {
		c.known[k] = v
	}
	return c
}

func (s *slScope) declare(name, typ string) {
	if _, ok := s.types[name]; !ok {
		s.order = append(s.order, name)
	}
	s.types[name] = typ
	s.depth[name] = s.level
	for k := range s.known {
		if strings.HasPrefix(k, name+".") {
			delete(s.known, k)
		}
	}
}

type slPop struct {
	*ast.EmptyStmt
	level int
}

type slHoist struct{ v, call string }

type sl struct {
	b         *strings.Builder
	errs      []string
	root      string
	dir       string
	files     []*ast.File
	structs   map[string]*slStruct
	order     []string // structs to emit, declaration order of discovery
	ifaces    map[string][]string
	impls     map[string][]string // interface -> implementing struct names, sorted by declaration
	pkgFuncs  map[string]*ast.FuncDecl
	linkFuncs map[string]*ast.FuncDecl
	want      []string // "Post.SelectLink"
	panics    map[string]bool
	needsC    map[string]bool
	needsE    map[string]bool
	dispatch  map[string]bool // "Tangible.SelectLink"
	pairZero  map[string]string
	cur       string
	curRecv   string
	curVar    string
	loops     int
	pending   []string
	hoists    []slHoist
	fresh     int
}

type slCont func(ind int, sc *slScope)

func (g *sl) fail(format string, a ...any) string {
	msg := fmt.Sprintf(format, a...)
	g.errs = append(g.errs, g.cur+": "+msg)
	return "(sorry_untranslatable /- " + strings.ReplaceAll(msg, "-/", "- /") + " -/)"
}

func (g *sl) line(ind int, s string) { g.b.WriteString(strings.Repeat("  ", ind) + s + "\n") }

/* ---------- types ---------- */

func slCtor(structName string) string {
	return strings.ToLower(structName[:1]) + structName[1:]
}

func (g *sl) leanType(t string) string {
	switch t {
	case "string":
		return "Str"
	case "bool":
		return "Bool"
	case "int":
		return "Int"
	case "*mime.MediaType":
		return "Mime.MediaType"
	case "error":
		return "Obj.Err"
	case "*Link":
		return "GenLink.Link"
	}
	if strings.HasPrefix(t, "*") {
		if _, ok := g.structs[t[1:]]; ok {
			return t[1:]
		}
	}
	if _, ok := g.ifaces[t]; ok {
		return t
	}
	if strings.HasPrefix(t, "[]") {
		return "List " + parenT(g.leanType(t[2:]))
	}
	return g.fail("type %s", t)
}

/* result shape: "R" (T, error), "Opt3" (A, B, bool), "Opt2" (A, bool); the Lean type without the panic layer */
func (g *sl) resKind(fd *ast.FuncDecl) (string, string, []string) {
	ts := []string{}
	if fd.Type.Results != nil {
		for _, r := range fd.Type.Results.List {
			n := len(r.Names)
			if n == 0 {
				n = 1
			}
			for i := 0; i < n; i++ {
				ts = append(ts, typeString(r.Type))
			}
		}
	}
	if len(ts) == 2 && ts[1] == "error" {
		return "R", "Obj.R " + parenT(g.leanType(ts[0])), ts
	}
	if len(ts) == 3 && ts[2] == "bool" {
		return "Opt3", "Option (" + g.leanType(ts[0]) + " × " + g.leanType(ts[1]) + ")", ts
	}
	if len(ts) == 2 && ts[1] == "bool" {
		return "Opt2", "Option " + parenT(g.leanType(ts[0])), ts
	}
	return "?", g.fail("result list of %s", fd.Name.Name), ts
}

func (g *sl) funcOf(key string) *ast.FuncDecl {
	parts := strings.SplitN(key, ".", 2)
	if st, ok := g.structs[parts[0]]; ok {
		return st.methods[parts[1]]
	}
	return nil
}

func (g *sl) resType(key string) string {
	_, t, _ := g.resKind(g.funcOf(key))
	if g.panics[key] {
		return "Except Panic (" + t + ")"
	}
	return t
}

func (g *sl) leaf(s string) string {
	if g.panics[g.cur] {
		return ".ok (" + s + ")"
	}
	return s
}

func (g *sl) extraParams(key string) []string {
	out := []string{}
	if g.needsC[key] {
		out = append(out, "(c : Colors)")
	}
	if g.needsE[key] {
		out = append(out, "(E : Obj.Err → Str)")
	}
	return out
}

func (g *sl) extraArgs(key string) []string {
	out := []string{}
	if g.needsC[key] {
		out = append(out, "c")
	}
	if g.needsE[key] {
		out = append(out, "E")
	}
	return out
}

/* ---------- the zero value next to an error ---------- */

/* every error return of the package function `name` carries nil or an empty literal */
func (g *sl) errorReturnsCarryZero(name string, seen map[string]bool) string {
	if seen[name] {
		return ""
	}
	seen[name] = true
	fd := g.pkgFuncs[name]
	if fd == nil || fd.Body == nil {
		return name + " is not a function of the package"
	}
	problem := ""
	var walk func(n ast.Node) bool
	walk = func(n ast.Node) bool {
		if problem != "" {
			return false
		}
		switch x := n.(type) {
		case *ast.FuncLit:
			return false
		case *ast.ReturnStmt:
			switch len(x.Results) {
			case 1:
				ce, ok := x.Results[0].(*ast.CallExpr)
				if !ok {
					problem = "return form in " + name
					return false
				}
				id, ok := ce.Fun.(*ast.Ident)
				if !ok {
					problem = "return of a call of " + exprString(ce.Fun) + " in " + name
					return false
				}
				if p := g.errorReturnsCarryZero(id.Name, seen); p != "" {
					problem = p
				}
			case 2:
				if isNilIdent(x.Results[1]) || isNilIdent(x.Results[0]) {
					return false
				}
				if cl, ok := x.Results[0].(*ast.CompositeLit); ok && len(cl.Elts) == 0 {
					if _, isArr := cl.Type.(*ast.ArrayType); isArr {
						return false
					}
				}
				problem = "an error return of " + name + " carries " + exprFull(x.Results[0])
			default:
				problem = "return form in " + name
			}
			return false
		}
		return true
	}
	ast.Inspect(fd.Body, walk)
	return problem
}

/* may `S.f` be read without a test of `S.fErr`?  "" if so, else the reason */
func (g *sl) pairZeroCheck(structName, f string) string {
	key := structName + "." + f
	if r, ok := g.pairZero[key]; ok {
		return r
	}
	reason := ""
	note := func(r string) {
		if reason == "" {
			reason = r
		}
	}
	for _, file := range g.files {
		ast.Inspect(file, func(n ast.Node) bool {
			switch x := n.(type) {
			case *ast.KeyValueExpr:
				if id, ok := x.Key.(*ast.Ident); ok && (id.Name == f || id.Name == f+"Err") {
					note("a composite literal sets " + id.Name)
				}
			case *ast.UnaryExpr:
				if se, ok := x.X.(*ast.SelectorExpr); ok && x.Op == token.AND && (se.Sel.Name == f || se.Sel.Name == f+"Err") {
					note("the address of " + exprString(se) + " is taken")
				}
			case *ast.AssignStmt:
				touches := false
				for _, l := range x.Lhs {
					if se, ok := l.(*ast.SelectorExpr); ok && (se.Sel.Name == f || se.Sel.Name == f+"Err") {
						touches = true
					}
				}
				if !touches {
					return true
				}
				good := false
				if len(x.Lhs) == 2 && len(x.Rhs) == 1 && x.Tok == token.ASSIGN {
					a, aok := x.Lhs[0].(*ast.SelectorExpr)
					b, bok := x.Lhs[1].(*ast.SelectorExpr)
					ce, isCall := x.Rhs[0].(*ast.CallExpr)
					if aok && bok && isCall && a.Sel.Name == f && b.Sel.Name == f+"Err" && exprString(a.X) == exprString(b.X) {
						if id, ok := ce.Fun.(*ast.Ident); ok {
							if p := g.errorReturnsCarryZero(id.Name, map[string]bool{}); p != "" {
								note(p)
							}
							good = true
						}
					}
				}
				if !good {
					note("assignment " + exprFull(x.Lhs[0]) + " … of another form")
				}
			}
			return true
		})
	}
	g.pairZero[key] = reason
	return reason
}

/* ---------- error expressions ---------- */

func (g *sl) errConst(e ast.Expr) (string, bool) {
	switch exprString(e) {
	case "object.ErrKeyNotPresent":
		return "Obj.Err.absent", true
	case "object.ErrKeyWrongType":
		return "Obj.Err.wrong", true
	}
	return "", false
}

/* `r.xErr` of a paired field: Lean term of the pair, key of what is known, struct and field */
func (g *sl) errField(sc *slScope, e ast.Expr) (string, string, bool) {
	se, ok := e.(*ast.SelectorExpr)
	if !ok || !strings.HasSuffix(se.Sel.Name, "Err") {
		return "", "", false
	}
	f := strings.TrimSuffix(se.Sel.Name, "Err")
	id, ok := se.X.(*ast.Ident)
	if !ok || !strings.HasPrefix(sc.types[id.Name], "*") {
		return "", "", false
	}
	st, ok := g.structs[sc.types[id.Name][1:]]
	if !ok {
		return "", "", false
	}
	ix, ok := st.fieldIx[f]
	if !ok || !st.fields[ix].pair {
		return "", "", false
	}
	return g.fieldTerm(st, id.Name, f), id.Name + "." + f, true
}

func (g *sl) fieldTerm(st *slStruct, v, f string) string {
	if st.recursive {
		return lkIdent(v + "_" + f)
	}
	return lkIdent(v) + "." + f
}

/* an error value as its class */
func (g *sl) errExpr(sc *slScope, e ast.Expr) string {
	if c, ok := g.errConst(e); ok {
		return c
	}
	switch x := e.(type) {
	case *ast.Ident:
		if sc.types[x.Name] == "error" {
			return lkIdent(x.Name)
		}
	case *ast.SelectorExpr:
		if _, key, ok := g.errField(sc, x); ok {
			if k, ok := sc.known[key]; ok && strings.HasPrefix(k, "err:") {
				return k[4:]
			}
			return g.fail("%s used as an error where it is not known to be non-nil", exprString(x))
		}
	}
	return g.fail("error expression %s", exprFull(e))
}

/* the text `e.Error()` of an error expression */
func (g *sl) errText(sc *slScope, e ast.Expr) string {
	if ce, ok := e.(*ast.CallExpr); ok && exprString(ce.Fun) == "fmt.Errorf" && len(ce.Args) == 2 {
		bl, ok := ce.Args[0].(*ast.BasicLit)
		if !ok || bl.Kind != token.STRING {
			return g.fail("format of fmt.Errorf")
		}
		format, err := strconv.Unquote(bl.Value)
		if err != nil || strings.Count(format, "%") != 1 || strings.Count(format, "%w") != 1 {
			return g.fail("format %s of fmt.Errorf (one %%w and no other verb is understood)", bl.Value)
		}
		ix := strings.Index(format, "%w")
		parts := []string{}
		if ix > 0 {
			parts = append(parts, "(Go.str "+leanStr(format[:ix])+")")
		}
		parts = append(parts, "(E "+g.errExpr(sc, ce.Args[1])+")")
		if ix+2 < len(format) {
			parts = append(parts, "(Go.str "+leanStr(format[ix+2:])+")")
		}
		return "(" + strings.Join(parts, " ++ ") + ")"
	}
	return "(E " + g.errExpr(sc, e) + ")"
}

/* ---------- expressions ---------- */

func (g *sl) expr(sc *slScope, e ast.Expr) (string, string) {
	switch x := e.(type) {
	case *ast.ParenExpr:
		return g.expr(sc, x.X)
	case *ast.Ident:
		switch x.Name {
		case "true", "false":
			return x.Name, "bool"
		case "nil":
			return g.fail("nil as a value"), "?"
		}
		if t, ok := sc.types[x.Name]; ok {
			if t == "error" {
				return g.fail("error %s used as a value", x.Name), "?"
			}
			return lkIdent(x.Name), t
		}
		return g.fail("identifier %s", x.Name), "?"
	case *ast.BasicLit:
		switch x.Kind {
		case token.STRING:
			s, err := strconv.Unquote(x.Value)
			if err != nil {
				return g.fail("string literal %s", x.Value), "?"
			}
			return "(Go.str " + leanStr(s) + ")", "string"
		case token.INT:
			if _, err := strconv.ParseUint(x.Value, 10, 62); err == nil {
				return x.Value, "int"
			}
		}
		return g.fail("literal %s", x.Value), "?"
	case *ast.UnaryExpr:
		if x.Op == token.NOT {
			s, t := g.expr(sc, x.X)
			if t == "bool" {
				return "(!" + s + ")", "bool"
			}
		}
		if x.Op == token.SUB {
			s, t := g.expr(sc, x.X)
			if t == "int" {
				return "(-" + s + ")", "int"
			}
		}
		return g.fail("expression %s", exprFull(e)), "?"
	case *ast.BinaryExpr:
		return g.binary(sc, x)
	case *ast.SelectorExpr:
		return g.selector(sc, x)
	case *ast.CallExpr:
		return g.call(sc, x)
	case *ast.IndexExpr:
		s, t := g.expr(sc, x.X)
		i, it := g.expr(sc, x.Index)
		if strings.HasPrefix(t, "[]") && it == "int" {
			return g.hoist("Go.index " + s + " " + i), t[2:]
		}
		return g.fail("index expression %s", exprFull(e)), "?"
	}
	return g.fail("expression %s", exprFull(e)), "?"
}

func (g *sl) hoist(call string) string {
	if !g.panics[g.cur] {
		return g.fail("panicking operation in a function not marked as such")
	}
	g.fresh++
	v := fmt.Sprintf("x%d_", g.fresh)
	g.hoists = append(g.hoists, slHoist{v, call})
	return v
}

func (g *sl) flush(ind int) int {
	for _, h := range g.hoists {
		g.line(ind, "match "+h.call+" with")
		g.line(ind, "| .error p_ => .error p_")
		g.line(ind, "| .ok "+h.v+" =>")
		ind++
	}
	g.hoists = nil
	return ind
}

func (g *sl) binary(sc *slScope, x *ast.BinaryExpr) (string, string) {
	if (x.Op == token.EQL || x.Op == token.NEQ) && isNilIdent(x.Y) {
		if pair, key, ok := g.errField(sc, x.X); ok {
			t := "(Go.errNil " + pair + ")"
			if k, known := sc.known[key]; known {
				t = strconv.FormatBool(strings.HasPrefix(k, "ok:"))
			}
			if x.Op == token.NEQ {
				return "(!" + t + ")", "bool"
			}
			return t, "bool"
		}
		return g.fail("comparison with nil: %s", exprFull(x)), "?"
	}
	l, lt := g.expr(sc, x.X)
	r, rt := g.expr(sc, x.Y)
	switch x.Op {
	case token.LOR, token.LAND:
		if lt == "bool" && rt == "bool" {
			op := map[token.Token]string{token.LOR: "||", token.LAND: "&&"}[x.Op]
			return "(" + l + " " + op + " " + r + ")", "bool"
		}
	case token.EQL, token.NEQ:
		op := map[token.Token]string{token.EQL: "=", token.NEQ: "≠"}[x.Op]
		if lt == rt && (lt == "string" || lt == "bool" || lt == "int") {
			return "decide (" + l + " " + op + " " + r + ")", "bool"
		}
	case token.LSS, token.GTR, token.LEQ, token.GEQ:
		op := map[token.Token]string{token.LSS: "<", token.GTR: ">", token.LEQ: "≤", token.GEQ: "≥"}[x.Op]
		if lt == "int" && rt == "int" {
			return "decide (" + l + " " + op + " " + r + ")", "bool"
		}
	case token.ADD:
		if lt == "int" && rt == "int" {
			return "(" + l + " + " + r + ")", "int"
		}
		if lt == "string" && rt == "string" {
			return "(" + l + " ++ " + r + ")", "string"
		}
	case token.SUB:
		if lt == "int" && rt == "int" {
			return "(" + l + " - " + r + ")", "int"
		}
	case token.MUL:
		if lt == "int" && rt == "int" {
			return "(" + l + " * " + r + ")", "int"
		}
	}
	return g.fail("expression %s (%s, %s)", exprFull(x), lt, rt), "?"
}

func (g *sl) selector(sc *slScope, x *ast.SelectorExpr) (string, string) {
	id, ok := x.X.(*ast.Ident)
	if !ok || !strings.HasPrefix(sc.types[id.Name], "*") {
		return g.fail("selector %s", exprFull(x)), "?"
	}
	st, ok := g.structs[sc.types[id.Name][1:]]
	if !ok {
		return g.fail("selector %s", exprFull(x)), "?"
	}
	f := x.Sel.Name
	ix, isField := st.fieldIx[f]
	if !isField {
		return g.fail("field %s", exprFull(x)), "?"
	}
	fd := st.fields[ix]
	if !fd.pair {
		return g.fieldTerm(st, id.Name, f), fd.goType
	}
	if k, ok := sc.known[id.Name+"."+f]; ok {
		if strings.HasPrefix(k, "ok:") {
			return k[3:], fd.goType
		}
	}
	/* an unguarded read: the value, or what lies next to the error */
	if !strings.HasPrefix(fd.goType, "[]") {
		return g.fail("%s read where %sErr is not known to be nil (only a slice has a representable zero value)", exprFull(x), exprFull(x)), "?"
	}
	if reason := g.pairZeroCheck(st.name, f); reason != "" {
		return g.fail("%s read where %sErr is not known to be nil, and %s", exprFull(x), exprFull(x), reason), "?"
	}
	return "(Go.pairVal " + g.fieldTerm(st, id.Name, f) + ")", fd.goType
}

/* a call of a method: the Lean head, the declaration, whether it can panic */
func (g *sl) methodCall(sc *slScope, x *ast.CallExpr) (string, *ast.FuncDecl, bool, bool) {
	se, ok := x.Fun.(*ast.SelectorExpr)
	if !ok {
		return "", nil, false, false
	}
	if id, isId := se.X.(*ast.Ident); isId {
		if _, isVar := sc.types[id.Name]; !isVar {
			return "", nil, false, false // a package
		}
	}
	recv, rt := g.expr(sc, se.X)
	var fd *ast.FuncDecl
	head := ""
	panics := false
	switch {
	case rt == "*Link":
		fd = g.linkFuncs[se.Sel.Name]
		head = "GenLink." + se.Sel.Name
		if fd != nil {
			ast.Inspect(fd.Body, func(n ast.Node) bool {
				switch n.(type) {
				case *ast.IndexExpr, *ast.SliceExpr:
					panics = true
				}
				return true
			})
		}
	case strings.HasPrefix(rt, "*") && g.structs[rt[1:]] != nil:
		key := rt[1:] + "." + se.Sel.Name
		fd = g.structs[rt[1:]].methods[se.Sel.Name]
		head = strings.Join(append([]string{key}, g.extraArgs(key)...), " ")
		panics = g.panics[key]
		if !slContains(g.want, key) {
			fd = nil
		}
	case g.ifaces[rt] != nil:
		key := rt + "." + se.Sel.Name
		if g.dispatch[key] {
			impl := g.impls[rt][0]
			fd = g.structs[impl].methods[se.Sel.Name]
			head = strings.Join(append([]string{key}, g.extraArgs(key)...), " ")
			panics = g.panics[key]
		}
	}
	if fd == nil {
		return g.fail("method %s of %s", se.Sel.Name, rt), nil, false, true
	}
	params := []string{}
	for _, p := range fd.Type.Params.List {
		n := len(p.Names)
		if n == 0 {
			n = 1
		}
		for i := 0; i < n; i++ {
			params = append(params, typeString(p.Type))
		}
	}
	if len(params) != len(x.Args) {
		return g.fail("arity of the call of %s", se.Sel.Name), fd, false, true
	}
	args := []string{recv}
	for i, a := range x.Args {
		s, t := g.expr(sc, a)
		if t != params[i] {
			s = g.fail("argument %d of %s: %s for %s", i, se.Sel.Name, t, params[i])
		}
		args = append(args, s)
	}
	return "(" + head + " " + strings.Join(args, " ") + ")", fd, panics, true
}

func slContains(xs []string, x string) bool {
	for _, y := range xs {
		if y == x {
			return true
		}
	}
	return false
}

/* calls whose result is one plain value */
func (g *sl) call(sc *slScope, x *ast.CallExpr) (string, string) {
	name := exprString(x.Fun)
	arg := func(i int) (string, string) { return g.expr(sc, x.Args[i]) }
	switch {
	case name == "len" && len(x.Args) == 1:
		s, t := arg(0)
		if strings.HasPrefix(t, "[]") {
			return "(Go.len " + s + ")", "int"
		}
	case name == "mime.Unknown" && len(x.Args) == 0:
		return "Mime.unknown", "*mime.MediaType"
	case name == "mime.UnknownSubtype" && len(x.Args) == 1:
		s, t := arg(0)
		if t == "string" {
			return "(Mime.unknownSubtype " + s + ")", "*mime.MediaType"
		}
	case name == "strings.ToLower" && len(x.Args) == 1:
		s, t := arg(0)
		if t == "string" {
			return "(_root_.Link.lower " + s + ")", "string"
		}
	case name == "ansi.Wrap" && len(x.Args) == 2:
		s, t := arg(0)
		w, wt := arg(1)
		if t == "string" && wt == "int" {
			return "(Ansi.wrap " + s + " " + w + ")", "string"
		}
	case name == "style.Problem" && len(x.Args) == 1:
		return "(Present.problem c " + g.errText(sc, x.Args[0]) + ")", "string"
	case name == "style.LinkBlock" && len(x.Args) == 2:
		s, t := arg(0)
		n, nt := arg(1)
		if t == "string" && nt == "int" {
			return g.hoist("GenStyle.LinkBlock c " + s + " " + n), "string"
		}
	}
	return g.fail("call %s", exprFull(x)), "?"
}

/* ---------- statements ---------- */

func (g *sl) nested(sc *slScope, body []ast.Stmt, rest []ast.Stmt) (*slScope, []ast.Stmt) {
	c := sc.clone()
	c.level++
	out := lkConcat(body, []ast.Stmt{&slPop{&ast.EmptyStmt{}, sc.level}})
	return c, lkConcat(out, rest)
}

func slZeroLit(e ast.Expr, t string) bool {
	switch t {
	case "string":
		bl, ok := e.(*ast.BasicLit)
		return ok && bl.Value == `""`
	case "bool":
		return exprString(e) == "false"
	case "int":
		return exprString(e) == "0"
	}
	if strings.HasPrefix(t, "*") || strings.HasPrefix(t, "[]") {
		return isNilIdent(e)
	}
	return false
}

func (g *sl) ret(ind int, sc *slScope, rs *ast.ReturnStmt) {
	kind, _, ts := g.resKind(g.funcOf(g.cur))
	if len(rs.Results) == 1 {
		if ce, ok := rs.Results[0].(*ast.CallExpr); ok {
			if s, fd, panics, ok := g.methodCall(sc, ce); ok && fd != nil {
				k2, _, ts2 := g.resKind(fd)
				if k2 == kind && strings.Join(ts, ",") == strings.Join(ts2, ",") {
					ind = g.flush(ind)
					if panics {
						if !g.panics[g.cur] {
							s = g.fail("tail call of a function that can panic in one not marked as such")
						}
						g.line(ind, s)
					} else {
						g.line(ind, g.leaf(s))
					}
					return
				}
			}
		}
		g.line(ind, g.fail("return %s", exprFull(rs.Results[0])))
		return
	}
	switch kind {
	case "Opt3", "Opt2":
		n := len(ts)
		if len(rs.Results) != n {
			break
		}
		switch exprString(rs.Results[n-1]) {
		case "false":
			for i := 0; i < n-1; i++ {
				if !slZeroLit(rs.Results[i], ts[i]) {
					g.line(ind, g.fail("%s returned next to false (only a zero literal is understood)", exprFull(rs.Results[i])))
					return
				}
			}
			g.line(ind, g.leaf("none"))
			return
		case "true":
			vals := []string{}
			for i := 0; i < n-1; i++ {
				a, at := g.expr(sc, rs.Results[i])
				if at != ts[i] {
					a = g.fail("returned value of type %s for %s", at, ts[i])
				}
				vals = append(vals, a)
			}
			ind = g.flush(ind)
			if n == 3 {
				g.line(ind, g.leaf("some ("+vals[0]+", "+vals[1]+")"))
			} else {
				g.line(ind, g.leaf("some "+vals[0]))
			}
			return
		}
	}
	g.line(ind, g.fail("return statement"))
}

func (g *sl) loopCall(sc *slScope) string {
	parts := append([]string{sc.loop.fn}, g.extraArgs(g.cur)...)
	for _, v := range sc.loop.vars {
		parts = append(parts, g.varTerm(sc, v))
	}
	return strings.Join(append(parts, sc.loop.restVar), " ")
}

func (g *sl) varTerm(sc *slScope, v string) string { return lkIdent(v) }

func (g *sl) block(ind int, sc *slScope, list []ast.Stmt, k slCont) {
	if len(list) == 0 {
		k(ind, sc)
		return
	}
	st, rest := list[0], list[1:]
	switch s := st.(type) {
	case *slPop:
		for name, d := range sc.depth {
			if d > s.level {
				delete(sc.types, name)
				delete(sc.depth, name)
				for i, o := range sc.order {
					if o == name {
						sc.order = append(append([]string{}, sc.order[:i]...), sc.order[i+1:]...)
						break
					}
				}
			}
		}
		sc.level = s.level
		g.block(ind, sc, rest, k)
	case *ast.ReturnStmt:
		g.ret(ind, sc, s)
	case *ast.BranchStmt:
		if s.Tok == token.CONTINUE && s.Label == nil && sc.loop != nil {
			g.line(ind, g.loopCall(sc))
			return
		}
		g.line(ind, g.fail("statement %s", s.Tok))
	case *ast.AssignStmt:
		g.assign(ind, sc, s, rest, k)
	case *ast.IfStmt:
		g.ifChain(ind, sc, s, rest, k)
	case *ast.RangeStmt:
		g.rangeLoop(ind, sc, s, rest, k)
	default:
		g.line(ind, g.fail("statement %T", st))
	}
}

func (g *sl) checkDefine(sc *slScope, names ...string) bool {
	for _, n := range names {
		if d, exists := sc.depth[n]; exists && d < sc.level {
			return false
		}
	}
	return true
}

func (g *sl) assign(ind int, sc *slScope, s *ast.AssignStmt, rest []ast.Stmt, k slCont) {
	if len(s.Rhs) != 1 {
		g.line(ind, g.fail("assignment with several right-hand sides"))
		return
	}
	lhs := []string{}
	for _, l := range s.Lhs {
		id, ok := l.(*ast.Ident)
		if !ok {
			g.line(ind, g.fail("assignment to %s", exprFull(l)))
			return
		}
		lhs = append(lhs, id.Name)
	}
	switch s.Tok {
	case token.DEFINE:
		if !g.checkDefine(sc, lhs...) {
			g.line(ind, g.fail(":= shadows an outer variable (%s)", strings.Join(lhs, ", ")))
			return
		}
	case token.ASSIGN, token.ADD_ASSIGN, token.SUB_ASSIGN:
		for _, n := range lhs {
			if _, ok := sc.types[n]; !ok {
				g.line(ind, g.fail("assignment to unknown %s", n))
				return
			}
		}
	default:
		g.line(ind, g.fail("assignment operator %s", s.Tok))
		return
	}
	if len(lhs) == 2 && s.Tok == token.DEFINE {
		/* v, err := call ; if err != nil { … } */
		a, b := lhs[0], lhs[1]
		ce, isCall := s.Rhs[0].(*ast.CallExpr)
		if isCall && len(rest) > 0 {
			if is, ok := rest[0].(*ast.IfStmt); ok && is.Init == nil && is.Else == nil && exprString(is.Cond) == b+"!=nil" {
				t, fd, panics, ok := g.methodCall(sc, ce)
				vt := "?"
				if !ok || fd == nil {
					t = g.fail("call %s as a (value, error) result", exprFull(ce))
				} else if kind, _, ts := g.resKind(fd); kind != "R" {
					t = g.fail("call %s as a (value, error) result", exprFull(ce))
				} else {
					vt = ts[0]
					if panics {
						t = g.hoist(t)
					}
				}
				ind = g.flush(ind)
				g.line(ind, "match "+t+" with")
				g.line(ind, "| .error "+lkIdent(b)+" => (")
				/* Go has bound `a` to the value next to the error; that value is not carried: `a` stays
				   unbound in Lean until the body assigns it, a use before that does not compile */
				scE := sc.clone()
				scE.declare(b, "error")
				scE.declare(a, "unassigned:"+vt)
				scE2, body := g.nested(scE, is.Body.List, rest[1:])
				g.block(ind+1, scE2, body, k)
				g.line(ind+1, ")")
				g.line(ind, "| .ok "+lkIdent(a)+" =>")
				sc.declare(a, vt)
				sc.declare(b, "nil-error")
				g.block(ind+1, sc, rest[1:], k)
				return
			}
		}
		g.line(ind, g.fail("two-value assignment %s, %s", a, b))
		return
	}
	if len(lhs) == 1 {
		a := lhs[0]
		t, vt := g.expr(sc, s.Rhs[0])
		cur := strings.TrimPrefix(sc.types[a], "unassigned:")
		switch s.Tok {
		case token.ASSIGN:
			if cur != vt {
				t = g.fail("%s of type %s assigned a %s", a, cur, vt)
			}
		case token.ADD_ASSIGN:
			switch {
			case sc.types[a] == "int" && vt == "int":
				t = "(" + lkIdent(a) + " + " + t + ")"
			case sc.types[a] == "string" && vt == "string":
				t = "(" + lkIdent(a) + " ++ " + t + ")"
			default:
				t = g.fail("%s += %s (%s, %s)", a, exprFull(s.Rhs[0]), sc.types[a], vt)
			}
		case token.SUB_ASSIGN:
			if sc.types[a] == "int" && vt == "int" {
				t = "(" + lkIdent(a) + " - " + t + ")"
			} else {
				t = g.fail("%s -= %s (%s, %s)", a, exprFull(s.Rhs[0]), sc.types[a], vt)
			}
		}
		ind = g.flush(ind)
		g.line(ind, "let "+lkIdent(a)+" := "+t)
		if s.Tok == token.DEFINE {
			sc.declare(a, vt)
		} else if strings.HasPrefix(sc.types[a], "unassigned:") {
			sc.types[a] = cur
		}
		g.block(ind, sc, rest, k)
		return
	}
	g.line(ind, g.fail("assignment"))
}

func (g *sl) arm(ind int, head string, last bool, body func(ind int)) {
	if last {
		g.line(ind, head)
		body(ind + 1)
		return
	}
	g.line(ind, head+" (")
	body(ind + 1)
	g.line(ind+1, ")")
}

func (g *sl) ifChain(ind int, sc *slScope, s *ast.IfStmt, rest []ast.Stmt, k slCont) {
	thenB := func(ind int, sc *slScope) {
		c, body := g.nested(sc, s.Body.List, rest)
		g.block(ind, c, body, k)
	}
	elseB := func(ind int, sc *slScope) {
		switch e := s.Else.(type) {
		case nil:
			g.block(ind, sc.clone(), rest, k)
		case *ast.IfStmt:
			g.ifChain(ind, sc.clone(), e, rest, k)
		case *ast.BlockStmt:
			c, body := g.nested(sc, e.List, rest)
			g.block(ind, c, body, k)
		default:
			g.line(ind, g.fail("else branch"))
		}
	}
	if s.Init != nil {
		g.line(ind, g.fail("if with an init statement"))
		return
	}
	if be, ok := s.Cond.(*ast.BinaryExpr); ok && (be.Op == token.EQL || be.Op == token.NEQ) && isNilIdent(be.Y) {
		if pair, key, ok := g.errField(sc, be.X); ok {
			if _, known := sc.known[key]; !known {
				base := strings.ReplaceAll(key, ".", "_")
				okArm := func(ind int, last bool) {
					c := sc.clone()
					c.known[key] = "ok:" + base + "_v"
					g.arm(ind, "| .ok "+base+"_v =>", last, func(ind int) {
						if be.Op == token.EQL {
							thenB(ind, c)
						} else {
							elseB(ind, c)
						}
					})
				}
				errArm := func(ind int, last bool) {
					c := sc.clone()
					c.known[key] = "err:" + base + "_e"
					g.arm(ind, "| .error "+base+"_e =>", last, func(ind int) {
						if be.Op == token.EQL {
							elseB(ind, c)
						} else {
							thenB(ind, c)
						}
					})
				}
				g.line(ind, "match "+pair+" with")
				if be.Op == token.EQL {
					okArm(ind, false)
					errArm(ind, true)
				} else {
					errArm(ind, false)
					okArm(ind, true)
				}
				return
			}
		}
	}
	cond := g.cond(sc, s.Cond)
	ind = g.flush(ind)
	g.line(ind, "if "+cond+" then (")
	thenB(ind+1, sc)
	g.line(ind+1, ") else")
	elseB(ind+1, sc)
}

func (g *sl) cond(sc *slScope, e ast.Expr) string {
	if ce, ok := e.(*ast.CallExpr); ok && exprString(ce.Fun) == "errors.Is" && len(ce.Args) == 2 {
		target, isConst := g.errConst(ce.Args[1])
		if !isConst {
			return g.fail("target of errors.Is: %s", exprFull(ce.Args[1]))
		}
		if pair, key, ok := g.errField(sc, ce.Args[0]); ok {
			if kn, known := sc.known[key]; known {
				if strings.HasPrefix(kn, "err:") {
					return "decide (" + kn[4:] + " = " + target + ")"
				}
				return "false"
			}
			return "(Go.errIs " + pair + " " + target + ")"
		}
		if id, ok := ce.Args[0].(*ast.Ident); ok && sc.types[id.Name] == "error" {
			return "decide (" + lkIdent(id.Name) + " = " + target + ")"
		}
		return g.fail("errors.Is on %s", exprFull(ce.Args[0]))
	}
	switch x := e.(type) {
	case *ast.ParenExpr:
		return "(" + g.cond(sc, x.X) + ")"
	case *ast.UnaryExpr:
		if x.Op == token.NOT {
			return "(!" + g.cond(sc, x.X) + ")"
		}
	case *ast.BinaryExpr:
		if x.Op == token.LAND {
			return "(" + g.cond(sc, x.X) + " && " + g.cond(sc, x.Y) + ")"
		}
		if x.Op == token.LOR {
			return "(" + g.cond(sc, x.X) + " || " + g.cond(sc, x.Y) + ")"
		}
	}
	s, t := g.expr(sc, e)
	if t != "bool" {
		return g.fail("condition %s", exprFull(e))
	}
	return s
}

func (g *sl) rangeLoop(ind int, sc *slScope, s *ast.RangeStmt, rest []ast.Stmt, k slCont) {
	if sc.loop != nil {
		g.line(ind, g.fail("nested loop"))
		return
	}
	val, ok := s.Value.(*ast.Ident)
	if !ok || s.Tok != token.DEFINE || !g.checkDefine(sc, val.Name) {
		g.line(ind, g.fail("form of the range statement"))
		return
	}
	keyName := ""
	if s.Key != nil && exprString(s.Key) != "_" {
		kid, ok := s.Key.(*ast.Ident)
		if !ok || !g.checkDefine(sc, kid.Name) {
			g.line(ind, g.fail("key of the range statement"))
			return
		}
		keyName = kid.Name
	}
	seq, seqT := g.expr(sc, s.X)
	if !strings.HasPrefix(seqT, "[]") {
		g.line(ind, g.fail("range over %s", seqT))
		return
	}
	elemT := seqT[2:]
	ind = g.flush(ind)

	used := slIdentsUsed(append([]ast.Stmt{s.Body}, rest...))
	vars := []string{}
	for _, v := range sc.order {
		if used[v] && sc.types[v] != "error" && sc.types[v] != "nil-error" && !strings.HasPrefix(sc.types[v], "unassigned:") {
			vars = append(vars, v)
		}
	}
	g.loops++
	name := g.cur + "_loop"
	if g.loops > 1 {
		name += strconv.Itoa(g.loops)
	}
	restVar := "rest_"

	save := g.b
	g.b = &strings.Builder{}
	params := g.extraParams(g.cur)
	for _, v := range vars {
		params = append(params, "("+lkIdent(v)+" : "+g.leanType(sc.types[v])+")")
	}
	listT := parenT(g.leanType(elemT))
	pat := lkIdent(val.Name)
	if keyName != "" {
		listT = "(Int × " + g.leanType(elemT) + ")"
		pat = "(" + lkIdent(keyName) + ", " + lkIdent(val.Name) + ")"
		seq = "(Go.enumerate " + seq + ")"
	}
	g.line(0, "/-- the loop of `"+g.cur+"` over `"+exprString(s.X)+"`: the variables it reads and writes, then the (index, element) pairs still to visit -/")
	g.line(0, "def "+name+" "+strings.Join(params, " ")+" : List "+listT+" → "+g.resType(g.cur))
	base := newSlScope()
	base.level = sc.level
	for _, v := range vars {
		base.declare(v, sc.types[v])
		base.depth[v] = sc.depth[v]
	}
	g.line(1, "| [] => (")
	g.block(2, base.clone(), rest, k)
	g.line(2, ")")
	g.line(1, "| "+pat+" :: "+restVar+" =>")
	body := base.clone()
	body.loop = &slLoop{fn: name, vars: vars, restVar: restVar}
	body.level++
	body.declare(val.Name, elemT)
	if keyName != "" {
		body.declare(keyName, "int")
	}
	g.block(2, body, s.Body.List, func(ind int, sc *slScope) { g.line(ind, g.loopCall(sc)) })
	g.line(0, "")
	g.pending = append(g.pending, g.b.String())
	g.b = save

	call := append([]string{name}, g.extraArgs(g.cur)...)
	for _, v := range vars {
		call = append(call, lkIdent(v))
	}
	g.line(ind, strings.Join(append(call, seq), " "))
}

func slIdentsUsed(nodes []ast.Stmt) map[string]bool {
	out := map[string]bool{}
	for _, n := range nodes {
		if _, isPop := n.(*slPop); isPop {
			continue
		}
		ast.Inspect(n, func(x ast.Node) bool {
			if id, ok := x.(*ast.Ident); ok {
				out[id.Name] = true
			}
			return true
		})
	}
	return out
}

/* ---------- functions ---------- */

func (g *sl) function(key string) string {
	parts := strings.SplitN(key, ".", 2)
	st := g.structs[parts[0]]
	fd := st.methods[parts[1]]
	g.cur = key
	g.loops = 0
	g.fresh = 0
	g.hoists = nil
	g.pending = nil
	g.b = &strings.Builder{}
	sc := newSlScope()
	r := fd.Recv.List[0]
	if len(r.Names) != 1 || typeString(r.Type) != "*"+st.name {
		g.fail("receiver of %s (a pointer receiver with a name is understood)", key)
		return ""
	}
	rv := r.Names[0].Name
	sc.declare(rv, "*"+st.name)
	names, types := []string{}, []string{}
	for _, p := range fd.Type.Params.List {
		for _, n := range p.Names {
			sc.declare(n.Name, typeString(p.Type))
			names = append(names, lkIdent(n.Name))
			types = append(types, g.leanType(typeString(p.Type)))
		}
	}
	doc := "/-- `func (" + rv + " *" + st.name + ") " + parts[1] + "`"
	if g.panics[key] {
		doc += " (the outer `Except Panic` is Go's run-time panic)"
	}
	g.line(0, doc+" -/")
	if st.recursive {
		sig := append([]string{st.name}, types...)
		g.line(0, "def "+key+" "+strings.Join(g.extraParams(key), " ")+" : "+strings.Join(sig, " → ")+" → "+g.resType(key))
		pats := []string{}
		for _, f := range st.fields {
			pats = append(pats, lkIdent(rv+"_"+f.name))
		}
		g.line(1, "| "+strings.Join(append([]string{"(.mk " + strings.Join(pats, " ") + ")"}, names...), ", ")+" =>")
		sc.level = 1
		g.block(2, sc, fd.Body.List, func(ind int, sc *slScope) { g.line(ind, g.fail("control reaches the end of %s", key)) })
	} else {
		params := append(g.extraParams(key), "("+lkIdent(rv)+" : "+st.name+")")
		for i := range names {
			params = append(params, "("+names[i]+" : "+types[i]+")")
		}
		g.line(0, "def "+key+" "+strings.Join(params, " ")+" : "+g.resType(key)+" :=")
		sc.level = 1
		g.block(1, sc, fd.Body.List, func(ind int, sc *slScope) { g.line(ind, g.fail("control reaches the end of %s", key)) })
	}
	g.line(0, "")
	return strings.Join(g.pending, "") + g.b.String()
}

/* the dynamic dispatch of method m through interface `iface`: one arm per implementer */
func (g *sl) dispatchDef(iface, m string) string {
	key := iface + "." + m
	g.cur = key
	var b strings.Builder
	first := g.structs[g.impls[iface][0]].methods[m]
	names, types := []string{}, []string{}
	for _, p := range first.Type.Params.List {
		for _, n := range p.Names {
			names = append(names, lkIdent(n.Name))
			types = append(types, g.leanType(typeString(p.Type)))
		}
	}
	_, rt, ts := g.resKind(first)
	if g.panics[key] {
		rt = "Except Panic (" + rt + ")"
	}
	b.WriteString("/-- `x." + m + "(…)` for `x " + iface + "`: the method of the dynamic type -/\n")
	b.WriteString("def " + key + " " + strings.Join(g.extraParams(key), " ") + " : " + strings.Join(append([]string{iface}, types...), " → ") + " → " + rt + "\n")
	for _, impl := range g.impls[iface] {
		fd := g.structs[impl].methods[m]
		_, _, ts2 := g.resKind(fd)
		ikey := impl + "." + m
		call := strings.Join(append(append([]string{ikey}, g.extraArgs(ikey)...), append([]string{"v_"}, names...)...), " ")
		if strings.Join(ts, ",") != strings.Join(ts2, ",") || len(fd.Type.Params.List) != len(first.Type.Params.List) {
			call = g.fail("signature of %s differs from the interface's", ikey)
		} else if g.panics[key] && !g.panics[ikey] {
			call = ".ok (" + call + ")"
		}
		b.WriteString("  | " + strings.Join(append([]string{"(." + slCtor(impl) + " v_)"}, names...), ", ") + " => " + call + "\n")
	}
	b.WriteString("\n")
	return b.String()
}

/* ---------- the package ---------- */

func translateSelect(root, dir string, wanted map[string][]string, linkRel string) (string, []string) {
	g := &sl{root: root, dir: dir, structs: map[string]*slStruct{}, ifaces: map[string][]string{}, impls: map[string][]string{},
		pkgFuncs: map[string]*ast.FuncDecl{}, linkFuncs: map[string]*ast.FuncDecl{}, panics: map[string]bool{}, needsC: map[string]bool{},
		needsE: map[string]bool{}, dispatch: map[string]bool{}, pairZero: map[string]string{}}
	g.b = &strings.Builder{}
	g.cur = "package " + dir
	names, _ := filepath.Glob(filepath.Join(root, dir, "*.go"))
	sort.Strings(names)
	declOrder := []string{}
	for _, p := range names {
		if strings.HasSuffix(p, "_test.go") || strings.HasSuffix(p, "verif_shim.go") {
			continue
		}
		rel, _ := filepath.Rel(root, p)
		f := parseFile(root, rel)
		g.files = append(g.files, f)
		for _, d := range f.Decls {
			switch x := d.(type) {
			case *ast.GenDecl:
				if x.Tok != token.TYPE {
					continue
				}
				for _, sp := range x.Specs {
					ts := sp.(*ast.TypeSpec)
					switch t := ts.Type.(type) {
					case *ast.InterfaceType:
						ms := []string{}
						for _, m := range t.Methods.List {
							for _, n := range m.Names {
								ms = append(ms, n.Name)
							}
						}
						g.ifaces[ts.Name.Name] = ms
					case *ast.StructType:
						st := &slStruct{name: ts.Name.Name, fieldIx: map[string]int{}, read: map[string]bool{}, methods: map[string]*ast.FuncDecl{}}
						all := []slField{}
						for _, fl := range t.Fields.List {
							for _, n := range fl.Names {
								all = append(all, slField{name: n.Name, goType: typeString(fl.Type)})
							}
						}
						isErrOf := map[string]bool{}
						for _, a := range all {
							if a.goType == "error" && strings.HasSuffix(a.name, "Err") {
								isErrOf[strings.TrimSuffix(a.name, "Err")] = true
							}
						}
						for _, a := range all {
							if a.goType == "error" && strings.HasSuffix(a.name, "Err") && len(a.name) > 3 {
								continue
							}
							a.pair = isErrOf[a.name]
							st.fieldIx[a.name] = len(st.fields)
							st.fields = append(st.fields, a)
						}
						g.structs[st.name] = st
						declOrder = append(declOrder, st.name)
					}
				}
			}
		}
	}
	for _, f := range g.files {
		for _, d := range f.Decls {
			fd, ok := d.(*ast.FuncDecl)
			if !ok || fd.Body == nil {
				continue
			}
			if fd.Recv == nil {
				g.pkgFuncs[fd.Name.Name] = fd
				continue
			}
			rt := strings.TrimPrefix(typeString(fd.Recv.List[0].Type), "*")
			if st, ok := g.structs[rt]; ok {
				st.methods[fd.Name.Name] = fd
			}
		}
	}
	if st, ok := g.structs["Link"]; ok {
		for n, fd := range st.methods {
			g.linkFuncs[n] = fd
		}
	}
	_ = linkRel
	/* implementers of each interface, in the order the wanted receivers are listed, then by name */
	for in, ms := range g.ifaces {
		for _, sn := range declOrder {
			st := g.structs[sn]
			has := len(ms) > 0
			for _, m := range ms {
				if st.methods[m] == nil {
					has = false
				}
			}
			if has {
				g.impls[in] = append(g.impls[in], sn)
			}
		}
		sort.Strings(g.impls[in])
	}

	/* the methods to translate: the wanted ones, plus every implementer's M for each `x.M()` on an interface value */
	recvOrder := []string{}
	for r := range wanted {
		recvOrder = append(recvOrder, r)
	}
	sort.Strings(recvOrder)
	for _, r := range recvOrder {
		for _, m := range wanted[r] {
			if g.structs[r] == nil || g.structs[r].methods[m] == nil {
				g.fail("method %s.%s not found", r, m)
				continue
			}
			g.want = append(g.want, r+"."+m)
		}
	}
	fieldType := func(st *slStruct, f string) string {
		if ix, ok := st.fieldIx[f]; ok {
			return st.fields[ix].goType
		}
		return ""
	}
	for changed := true; changed; {
		changed = false
		for _, key := range append([]string{}, g.want...) {
			parts := strings.SplitN(key, ".", 2)
			st := g.structs[parts[0]]
			fd := st.methods[parts[1]]
			rv := ""
			if len(fd.Recv.List[0].Names) == 1 {
				rv = fd.Recv.List[0].Names[0].Name
			}
			ast.Inspect(fd.Body, func(n ast.Node) bool {
				ce, ok := n.(*ast.CallExpr)
				if !ok {
					return true
				}
				se, ok := ce.Fun.(*ast.SelectorExpr)
				if !ok {
					return true
				}
				inner, ok := se.X.(*ast.SelectorExpr)
				if !ok || exprString(inner.X) != rv {
					return true
				}
				ft := fieldType(st, inner.Sel.Name)
				if _, isIface := g.ifaces[ft]; isIface {
					dk := ft + "." + se.Sel.Name
					if !g.dispatch[dk] {
						g.dispatch[dk] = true
						changed = true
					}
					for _, impl := range g.impls[ft] {
						if ik := impl + "." + se.Sel.Name; !slContains(g.want, ik) {
							g.want = append(g.want, ik)
							changed = true
						}
					}
				}
				return true
			})
		}
	}
	sort.Strings(g.want)

	/* the fields each struct's translated methods read */
	for _, key := range g.want {
		parts := strings.SplitN(key, ".", 2)
		st := g.structs[parts[0]]
		fd := st.methods[parts[1]]
		if len(fd.Recv.List[0].Names) != 1 {
			continue
		}
		rv := fd.Recv.List[0].Names[0].Name
		ast.Inspect(fd.Body, func(n ast.Node) bool {
			if se, ok := n.(*ast.SelectorExpr); ok && exprString(se.X) == rv {
				f := se.Sel.Name
				if _, ok := st.fieldIx[f]; ok {
					st.read[f] = true
				} else if _, ok := st.fieldIx[strings.TrimSuffix(f, "Err")]; ok && strings.HasSuffix(f, "Err") {
					st.read[strings.TrimSuffix(f, "Err")] = true
				}
			}
			return true
		})
	}
	needed := map[string]bool{}
	for _, key := range g.want {
		needed[strings.SplitN(key, ".", 2)[0]] = true
	}
	for _, sn := range declOrder {
		st := g.structs[sn]
		if !needed[sn] {
			if sn != "Link" {
				delete(g.structs, sn)
			}
			continue
		}
		kept := []slField{}
		st.fieldIx = map[string]int{}
		for _, f := range st.fields {
			if st.read[f.name] {
				st.fieldIx[f.name] = len(kept)
				kept = append(kept, f)
				if _, isIface := g.ifaces[f.goType]; isIface && slContains(g.impls[f.goType], sn) {
					st.recursive = true
				}
			}
		}
		st.fields = kept
		g.order = append(g.order, sn)
	}
	delete(g.structs, "Link") // its translation is GenLink's

	/* which functions can panic, which need the colours and the error texts */
	calls := map[string][]string{}
	for _, key := range g.want {
		fd := g.funcOf(key)
		st := g.structs[strings.SplitN(key, ".", 2)[0]]
		rv := ""
		if len(fd.Recv.List[0].Names) == 1 {
			rv = fd.Recv.List[0].Names[0].Name
		}
		ast.Inspect(fd.Body, func(n ast.Node) bool {
			switch x := n.(type) {
			case *ast.IndexExpr, *ast.SliceExpr:
				g.panics[key] = true
			case *ast.CallExpr:
				name := exprString(x.Fun)
				if strings.HasPrefix(name, "style.") {
					g.needsC[key] = true
				}
				if name == "style.Problem" {
					g.needsE[key] = true
				}
				if name == "style.LinkBlock" {
					g.panics[key] = true
				}
				if se, ok := x.Fun.(*ast.SelectorExpr); ok {
					if inner, ok := se.X.(*ast.SelectorExpr); ok && exprString(inner.X) == rv {
						if ix, ok := st.fieldIx[inner.Sel.Name]; ok {
							ft := st.fields[ix].goType
							if _, isIface := g.ifaces[ft]; isIface {
								calls[key] = append(calls[key], ft+"."+se.Sel.Name)
							}
						}
					}
					if exprString(se.X) == rv {
						if st.methods[se.Sel.Name] != nil {
							calls[key] = append(calls[key], st.name+"."+se.Sel.Name)
						}
					}
				}
			}
			return true
		})
	}
	for dk := range g.dispatch {
		parts := strings.SplitN(dk, ".", 2)
		for _, impl := range g.impls[parts[0]] {
			calls[dk] = append(calls[dk], impl+"."+parts[1])
		}
	}
	for changed := true; changed; {
		changed = false
		for k, cs := range calls {
			for _, c := range cs {
				for _, m := range []map[string]bool{g.panics, g.needsC, g.needsE} {
					if m[c] && !m[k] {
						m[k] = true
						changed = true
					}
				}
			}
		}
	}

	var out strings.Builder
	out.WriteString("set_option linter.unusedVariables false\n\nnamespace GenSelect\n\n")

	/* structures */
	inMutual := []string{}
	for _, sn := range g.order {
		st := g.structs[sn]
		if st.recursive {
			inMutual = append(inMutual, sn)
			continue
		}
		out.WriteString("/-- `type " + sn + " struct`, the fields the translated methods read; a pair `x`, `xErr` is one field -/\n")
		out.WriteString("structure " + sn + " where\n")
		for _, fl := range st.fields {
			t := g.leanType(fl.goType)
			if fl.pair {
				t = "Obj.R " + parenT(t)
			}
			out.WriteString("  " + fl.name + " : " + t + "\n")
		}
		out.WriteString("\n")
	}
	usedIfaces := []string{}
	for in := range g.ifaces {
		used := false
		for _, sn := range g.order {
			for _, f := range g.structs[sn].fields {
				if f.goType == in {
					used = true
				}
			}
		}
		if used {
			usedIfaces = append(usedIfaces, in)
		}
	}
	sort.Strings(usedIfaces)
	if len(usedIfaces) > 0 {
		out.WriteString("mutual\n")
		for _, in := range usedIfaces {
			out.WriteString("/-- `type " + in + " interface`: a value is one of the types of the package that have its methods -/\n")
			out.WriteString("inductive " + in + " where\n")
			for _, impl := range g.impls[in] {
				if g.structs[impl] == nil {
					g.fail("implementer %s of %s is not translated", impl, in)
					continue
				}
				out.WriteString("  | " + slCtor(impl) + " (v : " + impl + ")\n")
			}
		}
		for _, sn := range inMutual {
			st := g.structs[sn]
			out.WriteString("/-- `type " + sn + " struct`, the fields the translated methods read -/\n")
			out.WriteString("inductive " + sn + " where\n")
			fs := []string{}
			for _, fl := range st.fields {
				t := g.leanType(fl.goType)
				if fl.pair {
					t = "Obj.R " + parenT(t)
				}
				fs = append(fs, "("+fl.name+" : "+t+")")
			}
			out.WriteString("  | mk " + strings.Join(fs, " ") + "\n")
		}
		out.WriteString("end\n\n")
	} else if len(inMutual) > 0 {
		g.fail("recursive struct without an interface")
	}

	/* functions: the ones outside the recursion first, then one mutual block */
	rec := []string{}
	for _, key := range g.want {
		if g.structs[strings.SplitN(key, ".", 2)[0]].recursive {
			rec = append(rec, key)
			continue
		}
		out.WriteString(g.function(key))
	}
	dks := []string{}
	for dk := range g.dispatch {
		dks = append(dks, dk)
	}
	sort.Strings(dks)
	if len(dks)+len(rec) > 0 {
		out.WriteString("mutual\n")
		for _, dk := range dks {
			parts := strings.SplitN(dk, ".", 2)
			out.WriteString(g.dispatchDef(parts[0], parts[1]))
		}
		for _, key := range rec {
			out.WriteString(g.function(key))
		}
		out.WriteString("end\n\n")
	}
	out.WriteString("end GenSelect\n")
	return out.String(), g.errs
}
