package main

/*
go2lean, tenth front end: mime/mime.go as a whole — the `MediaType` struct, the three constant
constructors, `Parse`, `Update`, `Matches` — translated on every run into
lean/Generated/GoMime.lean (namespace `GenMime`), which `Props/Gen03m.lean` proves equal to the
hand-written model `Model/Mime.lean` (properties C03, C17, C20).

Every function of the file is translated (a new function outside the subset breaks the build just
like a changed one). Each becomes a `do` block in `Except Panic`, statement by statement.

  types        string -> Str, []string -> List Str, bool -> Bool, *S and S (S the struct of the
               file) -> the Lean structure, error -> the message (a Str)
  results      *S                -> Except Panic S
               (*S, error)       -> Except Panic (Except Str S); every `return` must be either
                                    `nil, E` or `&S{…}, nil`, so the pointer next to a nil error is
                                    never nil and the one next to an error is never looked at
               error             -> Except Panic (S × Option Str) for a method that assigns through
                                    its receiver (state passing: the receiver after the call next to
                                    the error), Except Panic (Option Str) otherwise
               bool              -> Except Panic Bool
  externals    `R.FindStringSubmatch(e)` with R a package-level `var R = regexp.MustCompile(lit)`
               -> `find e`, where `find : Str → List Str` is a parameter of every function that
               reaches such a call (nil = the empty list). The literal is the extracted fact
               `Generated.mimeRegexes`, see Props/Facts17.lean.
  statements   x := e, `v, err := F(…)` followed by `if err != nil { … }` (F a function of the file
               returning (*S, error)), if without init or else, return, `*recv = *p` (p a non-nil
               *S bound by such a call), `for _, v := range xs`
  expressions  identifiers, string / integer literals, true, false, s + t on strings, len(xs),
               xs[i] (bounds-checked: `Go.index`, a panic when out of range — the length test of the
               source is NOT carried as a hypothesis, the proofs have to discharge it), x.Field,
               == and != on two strings or two ints, < > <= >= on ints, !, &&, ||, &S{Field: e, …} (a field left out is
               Go's zero value ""), errors.New(e)

Receivers and *S arguments are taken to be non-nil (as in the first front end).
*/

import (
	"fmt"
	"go/ast"
	"go/token"
	"strings"
)

type m2l struct {
	b       strings.Builder
	err     []string
	structN string
	fields  []string
	regexps map[string]bool          // package-level variables holding a compiled regexp
	funcs   map[string]*ast.FuncDecl // every function of the file
	order   []string
	find    map[string]bool // function reaches FindStringSubmatch
	vars    map[string]string
	recv    string
	result  string // "ptr", "ptrerr", "err", "errstate", "bool"
}

func (g *m2l) fail(format string, a ...any) string {
	msg := fmt.Sprintf(format, a...)
	g.err = append(g.err, msg)
	return "(sorry_untranslatable /- " + msg + " -/)"
}

func (g *m2l) line(ind int, s string) { g.b.WriteString(strings.Repeat("  ", ind) + s + "\n") }

func mimeIdent(n string) string {
	switch n {
	case "matches", "match", "end", "from", "at", "open", "in", "then", "fun", "show", "have", "by", "do", "if", "else", "let", "with", "where", "type":
		return "«" + n + "»"
	}
	return n
}

/* Go type -> kind */
func (g *m2l) kindOfType(e ast.Expr) string {
	switch typeString(e) {
	case "string":
		return "str"
	case "[]string":
		return "strs"
	case "bool":
		return "bool"
	case "int":
		return "int"
	case "error":
		return "err"
	case "*" + g.structN, g.structN:
		return "struct"
	}
	return "?"
}

func (g *m2l) leanOfKind(k string) string {
	switch k {
	case "str":
		return "Str"
	case "strs":
		return "List Str"
	case "bool":
		return "Bool"
	case "int":
		return "Int"
	case "struct":
		return g.structN
	}
	return g.fail("type of kind %s", k)
}

func (g *m2l) resultKind(fd *ast.FuncDecl) string {
	if fd.Type.Results == nil {
		return "?"
	}
	ks := []string{}
	for _, r := range fd.Type.Results.List {
		n := len(r.Names)
		if n == 0 {
			n = 1
		}
		for i := 0; i < n; i++ {
			ks = append(ks, typeString(r.Type))
		}
	}
	switch strings.Join(ks, ",") {
	case "*" + g.structN:
		return "ptr"
	case "*" + g.structN + ",error":
		return "ptrerr"
	case "bool":
		return "bool"
	case "error":
		if fd.Recv != nil && g.assignsThrough(fd.Body, recvName(fd)) {
			return "errstate"
		}
		return "err"
	}
	return "?"
}

/* does the body contain `*v = …`? */
func (g *m2l) assignsThrough(body *ast.BlockStmt, v string) bool {
	found := false
	ast.Inspect(body, func(n ast.Node) bool {
		if as, ok := n.(*ast.AssignStmt); ok {
			for _, l := range as.Lhs {
				if st, ok := l.(*ast.StarExpr); ok && exprString(st.X) == v {
					found = true
				}
			}
		}
		return true
	})
	return found
}

/* the kind of an expression; "?" when the translator cannot tell */
func (g *m2l) kind(e ast.Expr) string {
	switch x := e.(type) {
	case *ast.Ident:
		if x.Name == "true" || x.Name == "false" {
			return "bool"
		}
		if k, ok := g.vars[x.Name]; ok {
			return k
		}
	case *ast.BasicLit:
		switch x.Kind {
		case token.STRING:
			return "str"
		case token.INT:
			return "int"
		}
	case *ast.ParenExpr:
		return g.kind(x.X)
	case *ast.BinaryExpr:
		switch x.Op {
		case token.ADD:
			if g.kind(x.X) == "str" && g.kind(x.Y) == "str" {
				return "str"
			}
		case token.EQL, token.NEQ, token.LAND, token.LOR, token.LSS, token.GTR, token.LEQ, token.GEQ:
			return "bool"
		}
	case *ast.UnaryExpr:
		if x.Op == token.NOT {
			return "bool"
		}
		if x.Op == token.AND {
			if cl, ok := x.X.(*ast.CompositeLit); ok && typeString(cl.Type) == g.structN {
				return "struct"
			}
		}
	case *ast.SelectorExpr:
		if id, ok := x.X.(*ast.Ident); ok && g.vars[id.Name] == "struct" && g.isField(x.Sel.Name) {
			return "str"
		}
	case *ast.IndexExpr:
		if g.kind(x.X) == "strs" && g.kind(x.Index) == "int" {
			return "str"
		}
	case *ast.CallExpr:
		switch fn := x.Fun.(type) {
		case *ast.Ident:
			if fn.Name == "len" && len(x.Args) == 1 && g.kind(x.Args[0]) == "strs" {
				return "int"
			}
		case *ast.SelectorExpr:
			if id, ok := fn.X.(*ast.Ident); ok && g.regexps[id.Name] && fn.Sel.Name == "FindStringSubmatch" && len(x.Args) == 1 && g.kind(x.Args[0]) == "str" {
				return "strs"
			}
			if exprString(fn) == "errors.New" && len(x.Args) == 1 && g.kind(x.Args[0]) == "str" {
				return "err"
			}
		}
	}
	return "?"
}

func (g *m2l) isField(n string) bool {
	for _, f := range g.fields {
		if f == n {
			return true
		}
	}
	return false
}

func (g *m2l) expr(e ast.Expr) string {
	switch x := e.(type) {
	case *ast.Ident:
		if x.Name == "true" || x.Name == "false" {
			return x.Name
		}
		if _, ok := g.vars[x.Name]; ok {
			return mimeIdent(x.Name)
		}
		return g.fail("identifier %s", x.Name)
	case *ast.BasicLit:
		switch x.Kind {
		case token.STRING:
			return "(Go.str " + leanStr(unquote(x)) + ")"
		case token.INT:
			return x.Value
		}
	case *ast.ParenExpr:
		return "(" + g.expr(x.X) + ")"
	case *ast.UnaryExpr:
		if x.Op == token.NOT && g.kind(x.X) == "bool" {
			return "(!" + g.expr(x.X) + ")"
		}
		if x.Op == token.AND {
			if cl, ok := x.X.(*ast.CompositeLit); ok {
				return g.composite(cl)
			}
		}
	case *ast.BinaryExpr:
		kl, kr := g.kind(x.X), g.kind(x.Y)
		l, r := g.expr(x.X), g.expr(x.Y)
		switch x.Op {
		case token.ADD:
			if kl == "str" && kr == "str" {
				return "(" + l + " ++ " + r + ")"
			}
		case token.EQL, token.NEQ:
			if kl == kr && (kl == "str" || kl == "int") {
				if x.Op == token.EQL {
					return "decide (" + l + " = " + r + ")"
				}
				return "decide (" + l + " ≠ " + r + ")"
			}
		case token.LSS, token.GTR, token.LEQ, token.GEQ:
			if kl == "int" && kr == "int" {
				op := map[token.Token]string{token.LSS: "<", token.GTR: ">", token.LEQ: "≤", token.GEQ: "≥"}[x.Op]
				return "decide (" + l + " " + op + " " + r + ")"
			}
		case token.LAND:
			if kl == "bool" && kr == "bool" {
				return "(" + l + " && " + r + ")"
			}
		case token.LOR:
			if kl == "bool" && kr == "bool" {
				return "(" + l + " || " + r + ")"
			}
		}
		return g.fail("operator %s on %s, %s in %s", x.Op, kl, kr, exprString(e))
	case *ast.SelectorExpr:
		if g.kind(e) == "str" {
			return mimeIdent(exprString(x.X)) + "." + x.Sel.Name
		}
	case *ast.IndexExpr:
		if g.kind(e) == "str" {
			return "(← Go.index " + g.expr(x.X) + " " + g.expr(x.Index) + ")"
		}
	case *ast.CallExpr:
		switch g.kind(e) {
		case "int":
			return "(Go.len " + g.expr(x.Args[0]) + ")"
		case "strs":
			return "(find " + g.expr(x.Args[0]) + ")"
		case "err":
			return g.expr(x.Args[0])
		}
	}
	return g.fail("expression %s", exprString(e))
}

/* S{Field: e, …} */
func (g *m2l) composite(cl *ast.CompositeLit) string {
	if typeString(cl.Type) != g.structN {
		return g.fail("composite literal of type %s", typeString(cl.Type))
	}
	given := map[string]string{}
	for _, el := range cl.Elts {
		kv, ok := el.(*ast.KeyValueExpr)
		if !ok {
			return g.fail("positional composite literal")
		}
		k, ok := kv.Key.(*ast.Ident)
		if !ok || !g.isField(k.Name) {
			return g.fail("composite literal key %s", exprString(kv.Key))
		}
		if _, dup := given[k.Name]; dup {
			return g.fail("duplicate field %s", k.Name)
		}
		if g.kind(kv.Value) != "str" {
			given[k.Name] = g.fail("field %s: %s is not a string", k.Name, exprString(kv.Value))
			continue
		}
		given[k.Name] = g.expr(kv.Value)
	}
	parts := []string{}
	for _, f := range g.fields {
		v, ok := given[f]
		if !ok {
			v = "(Go.str \"\")" // a field left out of a keyed literal is the zero value
		}
		parts = append(parts, f+" := "+v)
	}
	return "{ " + strings.Join(parts, ", ") + " }"
}

/* a call of a function of the file: the callee's name with `find` handed on */
func (g *m2l) ownCall(x *ast.CallExpr) (string, *ast.FuncDecl) {
	id, ok := x.Fun.(*ast.Ident)
	if !ok {
		return g.fail("call %s", exprString(x.Fun)), nil
	}
	fd, ok := g.funcs[id.Name]
	if !ok || fd.Recv != nil {
		return g.fail("call %s", id.Name), nil
	}
	n := 0
	for _, p := range fd.Type.Params.List {
		n += len(p.Names)
	}
	if n != len(x.Args) {
		return g.fail("arity of %s", id.Name), nil
	}
	parts := []string{id.Name}
	if g.find[id.Name] {
		parts = append(parts, "find")
	}
	i := 0
	for _, p := range fd.Type.Params.List {
		for range p.Names {
			if g.kind(x.Args[i]) != g.kindOfType(p.Type) {
				parts = append(parts, g.fail("argument %d of %s", i, id.Name))
			} else {
				parts = append(parts, g.expr(x.Args[i]))
			}
			i++
		}
	}
	return "(" + strings.Join(parts, " ") + ")", fd
}

func (g *m2l) ret(ind int, rs *ast.ReturnStmt) {
	switch g.result {
	case "ptr":
		if len(rs.Results) == 1 && g.kind(rs.Results[0]) == "struct" {
			g.line(ind, "return "+g.expr(rs.Results[0]))
			return
		}
	case "bool":
		if len(rs.Results) == 1 && g.kind(rs.Results[0]) == "bool" {
			g.line(ind, "return "+g.expr(rs.Results[0]))
			return
		}
	case "ptrerr":
		if len(rs.Results) == 2 {
			v, e := rs.Results[0], rs.Results[1]
			if isNilIdent(v) && g.kind(e) == "err" {
				g.line(ind, "return .error "+g.expr(e))
				return
			}
			/* the value next to a nil error must be a literal `&S{…}`: never nil */
			if ue, ok := v.(*ast.UnaryExpr); ok && ue.Op == token.AND && g.kind(v) == "struct" && isNilIdent(e) {
				g.line(ind, "return .ok "+g.expr(v))
				return
			}
		}
	case "err", "errstate":
		if len(rs.Results) == 1 {
			val := ""
			if isNilIdent(rs.Results[0]) {
				val = "none"
			} else if g.kind(rs.Results[0]) == "err" {
				val = "some " + g.expr(rs.Results[0])
			}
			if val != "" {
				if g.result == "errstate" {
					g.line(ind, "return ("+mimeIdent(g.recv)+", "+val+")")
				} else {
					g.line(ind, "return "+val)
				}
				return
			}
		}
	}
	g.line(ind, g.fail("return form in a function of result kind %s", g.result))
}

func (g *m2l) block(ind int, list []ast.Stmt) {
	if len(list) == 0 {
		g.line(ind, "pure ()")
		return
	}
	for i := 0; i < len(list); i++ {
		switch s := list[i].(type) {
		case *ast.ReturnStmt:
			g.ret(ind, s)
		case *ast.AssignStmt:
			/* v, err := F(…) ; if err != nil { … } */
			if len(s.Lhs) == 2 && len(s.Rhs) == 1 && s.Tok == token.DEFINE {
				v, vok := s.Lhs[0].(*ast.Ident)
				e, eok := s.Lhs[1].(*ast.Ident)
				ce, cok := s.Rhs[0].(*ast.CallExpr)
				if vok && eok && cok && i+1 < len(list) {
					if is, ok := list[i+1].(*ast.IfStmt); ok && is.Init == nil && is.Else == nil && exprString(is.Cond) == e.Name+"!=nil" {
						call, fd := g.ownCall(ce)
						if fd != nil && g.resultKind(fd) == "ptrerr" {
							g.line(ind, "match (← "+call+") with")
							g.line(ind, "| .error "+mimeIdent(e.Name)+" =>")
							g.vars[e.Name] = "err"
							g.block(ind+1, is.Body.List)
							if !endsInReturn(is.Body.List) {
								g.line(ind+1, g.fail("error branch falls through"))
							}
							delete(g.vars, e.Name)
							g.line(ind, "| .ok "+mimeIdent(v.Name)+" =>")
							g.vars[v.Name] = "struct"
							g.block(ind+1, list[i+2:])
							return
						}
					}
				}
				g.line(ind, g.fail("two-valued assignment %s", exprString(s.Rhs[0])))
				continue
			}
			if len(s.Lhs) != 1 || len(s.Rhs) != 1 {
				g.line(ind, g.fail("multiple assignment"))
				continue
			}
			/* *recv = *p */
			if st, ok := s.Lhs[0].(*ast.StarExpr); ok && s.Tok == token.ASSIGN {
				rs, rok := s.Rhs[0].(*ast.StarExpr)
				if rok && g.result == "errstate" && exprString(st.X) == g.recv && g.kind(rs.X) == "struct" {
					g.line(ind, mimeIdent(g.recv)+" := "+g.expr(rs.X))
					continue
				}
				g.line(ind, g.fail("assignment through %s", exprString(st)))
				continue
			}
			if id, ok := s.Lhs[0].(*ast.Ident); ok && s.Tok == token.DEFINE {
				k := g.kind(s.Rhs[0])
				if k == "?" || k == "err" {
					g.line(ind, g.fail("definition %s := %s", id.Name, exprString(s.Rhs[0])))
					continue
				}
				rhs := g.expr(s.Rhs[0])
				g.vars[id.Name] = k
				g.line(ind, "let "+mimeIdent(id.Name)+" := "+rhs)
				continue
			}
			g.line(ind, g.fail("assignment to %s", exprString(s.Lhs[0])))
		case *ast.IfStmt:
			if s.Init != nil || s.Else != nil || g.kind(s.Cond) != "bool" {
				g.line(ind, g.fail("if form %s", exprString(s.Cond)))
				continue
			}
			g.line(ind, "if "+g.expr(s.Cond)+" then")
			g.block(ind+1, s.Body.List)
		case *ast.RangeStmt:
			k, kok := s.Key.(*ast.Ident)
			v, vok := s.Value.(*ast.Ident)
			if !kok || k.Name != "_" || !vok || s.Tok != token.DEFINE || g.kind(s.X) != "strs" {
				g.line(ind, g.fail("range form"))
				continue
			}
			g.vars[v.Name] = "str"
			g.line(ind, "for "+mimeIdent(v.Name)+" in "+g.expr(s.X)+" do")
			g.block(ind+1, s.Body.List)
			delete(g.vars, v.Name)
		default:
			g.line(ind, g.fail("statement %T", list[i]))
		}
	}
}

func endsInReturn(list []ast.Stmt) bool {
	if len(list) == 0 {
		return false
	}
	_, ok := list[len(list)-1].(*ast.ReturnStmt)
	return ok
}

func (g *m2l) function(fd *ast.FuncDecl) {
	g.vars = map[string]string{}
	g.recv = ""
	g.result = g.resultKind(fd)
	name := fd.Name.Name
	params := []string{}
	if g.find[name] {
		params = append(params, "(find : Str → List Str)")
	}
	if fd.Recv != nil {
		g.recv = recvName(fd)
		if typeString(fd.Recv.List[0].Type) != "*"+g.structN || g.recv == "" {
			params = append(params, g.fail("receiver of %s", name))
		}
		g.vars[g.recv] = "struct"
		if g.result == "errstate" {
			params = append(params, "("+mimeIdent(g.recv)+"0 : "+g.structN+")")
		} else {
			params = append(params, "("+mimeIdent(g.recv)+" : "+g.structN+")")
		}
	}
	for _, p := range fd.Type.Params.List {
		k := g.kindOfType(p.Type)
		lt := ""
		if k == "?" || k == "err" {
			lt = g.fail("parameter type %s", typeString(p.Type))
		} else {
			lt = g.leanOfKind(k)
		}
		for _, n := range p.Names {
			g.vars[n.Name] = k
			params = append(params, "("+mimeIdent(n.Name)+" : "+paren(lt)+")")
		}
	}
	rt := ""
	switch g.result {
	case "ptr":
		rt = g.structN
	case "ptrerr":
		rt = "(Except Str " + g.structN + ")"
	case "bool":
		rt = "Bool"
	case "err":
		rt = "(Option Str)"
	case "errstate":
		rt = "(" + g.structN + " × Option Str)"
	default:
		rt = g.fail("result type of %s", name)
	}
	g.line(0, strings.TrimSpace(fmt.Sprintf("def %s %s", name, strings.Join(params, " ")))+" : Except Panic "+rt+" := do")
	if g.result == "errstate" {
		g.line(1, "let mut "+mimeIdent(g.recv)+" := "+mimeIdent(g.recv)+"0")
	}
	g.block(1, fd.Body.List)
	if !endsInReturn(fd.Body.List) {
		g.line(1, g.fail("%s falls off its end", name))
	}
	g.line(0, "")
}

/* does the body call R.FindStringSubmatch or a function already known to? */
func (g *m2l) reachesFind(fd *ast.FuncDecl) bool {
	found := false
	ast.Inspect(fd.Body, func(n ast.Node) bool {
		ce, ok := n.(*ast.CallExpr)
		if !ok {
			return true
		}
		switch fn := ce.Fun.(type) {
		case *ast.SelectorExpr:
			if id, ok := fn.X.(*ast.Ident); ok && g.regexps[id.Name] {
				found = true
			}
		case *ast.Ident:
			if g.find[fn.Name] {
				found = true
			}
		}
		return true
	})
	return found
}

func translateMime(f *ast.File, structName string, required []string) (string, []string) {
	g := &m2l{structN: structName, regexps: map[string]bool{}, funcs: map[string]*ast.FuncDecl{}, find: map[string]bool{}}
	var st *ast.StructType
	for _, d := range f.Decls {
		switch x := d.(type) {
		case *ast.GenDecl:
			for _, sp := range x.Specs {
				switch s := sp.(type) {
				case *ast.ImportSpec:
				case *ast.TypeSpec:
					if t, ok := s.Type.(*ast.StructType); ok && s.Name.Name == structName && s.TypeParams == nil {
						st = t
					} else {
						g.fail("type declaration %s", s.Name.Name)
					}
				case *ast.ValueSpec:
					/* var R = regexp.MustCompile(literal) */
					ok := x.Tok == token.VAR && len(s.Names) == 1 && len(s.Values) == 1 && s.Type == nil
					if ok {
						ce, isCall := s.Values[0].(*ast.CallExpr)
						ok = isCall && exprString(ce.Fun) == "regexp.MustCompile" && len(ce.Args) == 1
						if ok {
							_, ok = ce.Args[0].(*ast.BasicLit)
						}
					}
					if ok {
						g.regexps[s.Names[0].Name] = true
					} else {
						g.fail("package-level declaration %s", s.Names[0].Name)
					}
				}
			}
		case *ast.FuncDecl:
			if x.Type.TypeParams != nil || x.Body == nil {
				g.fail("function %s", x.Name.Name)
				continue
			}
			if _, dup := g.funcs[x.Name.Name]; dup {
				g.fail("two functions named %s", x.Name.Name)
				continue
			}
			g.funcs[x.Name.Name] = x
			g.order = append(g.order, x.Name.Name)
		}
	}
	for _, n := range required {
		if _, ok := g.funcs[n]; !ok {
			g.fail("function %s not found", n)
		}
	}
	g.line(0, "namespace GenMime")
	g.line(0, "")
	if st == nil {
		g.line(0, g.fail("struct %s not found", structName))
	} else {
		g.line(0, "structure "+structName+" where")
		for _, fl := range st.Fields.List {
			if typeString(fl.Type) != "string" || len(fl.Names) == 0 || fl.Tag != nil {
				g.line(1, g.fail("field of type %s", typeString(fl.Type)))
				continue
			}
			for _, n := range fl.Names {
				g.fields = append(g.fields, n.Name)
				g.line(1, n.Name+" : Str")
			}
		}
		g.line(1, "deriving DecidableEq, Repr")
		g.line(0, "")
	}
	/* which functions need the submatch function: least fixed point over the calls */
	for changed := true; changed; {
		changed = false
		for _, n := range g.order {
			if !g.find[n] && g.reachesFind(g.funcs[n]) {
				g.find[n] = true
				changed = true
			}
		}
	}
	/* callees first (the file's order is free in Go, not in Lean) */
	done := map[string]bool{}
	var emit func(n string, depth int)
	emit = func(n string, depth int) {
		if done[n] {
			return
		}
		if depth > len(g.order) {
			g.fail("recursion through %s", n)
			return
		}
		ast.Inspect(g.funcs[n].Body, func(nd ast.Node) bool {
			if ce, ok := nd.(*ast.CallExpr); ok {
				if id, ok := ce.Fun.(*ast.Ident); ok {
					if _, own := g.funcs[id.Name]; own && id.Name != n {
						emit(id.Name, depth+1)
					}
				}
			}
			return true
		})
		if done[n] {
			return
		}
		done[n] = true
		g.function(g.funcs[n])
	}
	for _, n := range g.order {
		emit(n, 0)
	}
	g.line(0, "end GenMime")
	return g.b.String(), g.err
}
