package main

/*
go2lean, twelfth front end: `(*State).view()` of ui/ui.go, the function that builds every frame
(the subject of C16 above the layout functions of ansi/ansi.go).  Output: lean/Generated/GoView.lean,
namespace GenView; `Props/Gen16v.lean` proves it equal to the model (`Ui.view`), `Props/GenT16v.lean`
carries C16 over to it.

What is read from the source and how it is translated:

  const ( loading = iota … )   the block that declares the modes: one `def name : Int := k` each, in
                               the order and with the values the block gives (iota, implicit repetition)
  type State, type Page        the fields `view` reads, with the types the declarations give them
                               (int, string, bool, history.History[*Page], *feed.Feed); a field of any
                               other type that `view` reads is untranslatable.  `*Page`, `*feed.Feed`
                               are values: every `&Page{…}` literal of ui.go must set `feed`
                               (checked), the constructors of feed.go return fresh pointers
  pub.Tangible                 (pub/interfaces.go) the methods `view` calls, each `(int) string`: a
                               structure of functions `Int → Str`; a feed element is an
                               `Option Tangible` (nil-able interface), a call through it `Go.deref`s
  s.h.Current(), feed methods  the translated `GenHistory.Current`, `GenFeed.Contains/IsParent/IsChild/Get`
  ansi.CenterVertically, ReplaceLastLine, SetLength   the translated `GenAnsi.*` (`Except Panic`)
  ansi.Indent, style.Color, style.Highlight           the model's `Ansi.indent`, `Style.color c`,
                               `Style.highlight c` (`c : Colors`, the processed configuration)
  config.Parsed.Network.Context   the parameter `context : Int` (config/config.go must declare it `int`)
  strings.TrimSuffix           `Go.Strings.trimSuffix`
  statements                   const / var declarations, := = += ++ --, if / else, switch on a pure
                               tag with single-constant cases (a trailing `break` is `pure ()`,
                               `default` last), `for i := lo; i <= hi; i++` (`Go.countUp`: the body may
                               change neither `i` nor what `hi` mentions), `for x > e && … { …; x-- }`
                               (`Go.budget`, see Model/GoCtl.lean: the body must step `x` exactly once,
                               at top level, and branch nowhere), continue, return, panic("…")
  expressions                  literals (strings re-quoted from their value), + - on int (unbounded
                               `Int`), + on strings, comparisons, ! && || (a right operand with effects
                               goes through `Go.land` / `Go.lor`: evaluated only when needed), uint(·)

Anything else is replaced by `sorry_untranslatable`, an undeclared identifier: the Lean build of
Generated/GoView.lean fails, and with it `./check C16`.
*/

import (
	"fmt"
	"go/ast"
	"go/token"
	"sort"
	"strconv"
	"strings"
)

type v12 struct {
	b       strings.Builder
	err     []string
	vars    map[string]string // local name -> kind
	recv    string
	structs map[string]*ast.StructType
	used    map[string]map[string]bool // struct -> fields view reads
	ftype   map[string]map[string][2]string
	modes   []string
	modeSet map[string]bool
	iface   map[string]*ast.FuncType // pub.Tangible methods
	tmeth   map[string]bool          // … those view calls
	loops   int                      // depth of enclosing for loops
	ctx     bool                     // config.Parsed.Network.Context is read
}

func (g *v12) fail(format string, a ...any) string {
	msg := fmt.Sprintf(format, a...)
	g.err = append(g.err, msg)
	return "(sorry_untranslatable /- " + strings.ReplaceAll(msg, "-/", "- /") + " -/)"
}

func (g *v12) line(ind int, s string) { g.b.WriteString(strings.Repeat("  ", ind) + s + "\n") }

var v12LeanType = map[string]string{"string": "Str", "int": "Int", "uint": "Nat", "bool": "Bool",
	"history": "GenHistory.History Page", "feed": "GenFeed.Feed Tangible", "item": "Option Tangible", "page": "Page"}

var v12Zero = map[string]string{"string": "(Go.str \"\")", "int": "0", "uint": "0", "bool": "false"}

/* the kind of a declared field or variable type */
func (g *v12) kindOfType(e ast.Expr) string {
	switch t := e.(type) {
	case *ast.Ident:
		switch t.Name {
		case "string", "int", "uint", "bool":
			return t.Name
		}
	case *ast.StarExpr:
		if exprString(t.X) == "feed.Feed" {
			return "feed"
		}
		if id, ok := t.X.(*ast.Ident); ok && id.Name == "Page" {
			return "page"
		}
	case *ast.IndexExpr:
		if exprString(t.X) == "history.History" && g.kindOfType(t.Index) == "page" {
			return "history"
		}
	case *ast.SelectorExpr:
		if exprString(t) == "pub.Tangible" {
			return "item"
		}
	}
	return "?"
}

func (g *v12) field(structName, recvText, name string) (string, string) {
	st, ok := g.structs[structName]
	if !ok {
		return g.fail("struct %s not declared", structName), "?"
	}
	for _, fl := range st.Fields.List {
		for _, n := range fl.Names {
			if n.Name == name {
				k := g.kindOfType(fl.Type)
				if k == "?" {
					return g.fail("field %s.%s of type %s", structName, name, exprFull(fl.Type)), "?"
				}
				if g.used[structName] == nil {
					g.used[structName] = map[string]bool{}
				}
				g.used[structName][name] = true
				return recvText + "." + leanIdent(name), k
			}
		}
	}
	return g.fail("no field %s in %s", name, structName), "?"
}

func v12Effects(s string) bool { return strings.Contains(s, "(←") }

func (g *v12) str(lit *ast.BasicLit) string {
	u, err := strconv.Unquote(lit.Value)
	if err != nil {
		return g.fail("string literal %s", lit.Value)
	}
	return "(Go.str " + leanStr(u) + ")"
}

func (g *v12) args(x *ast.CallExpr, kinds ...string) ([]string, bool) {
	if len(x.Args) != len(kinds) || x.Ellipsis != token.NoPos {
		return nil, false
	}
	out := []string{}
	for i, a := range x.Args {
		t, k := g.expr(a)
		if k == "lit" && (kinds[i] == "int" || kinds[i] == "uint") {
			k = kinds[i]
		}
		if k != kinds[i] {
			return nil, false
		}
		out = append(out, t)
	}
	return out, true
}

/* functions of other packages: Lean term, argument kinds, result kind, monadic? */
var v12Extern = map[string]struct {
	lean   string
	args   []string
	res    string
	monad  bool
	colors bool
}{
	"ansi.CenterVertically": {"GenAnsi.CenterVertically", []string{"string", "string", "string", "uint"}, "string", true, false},
	"ansi.ReplaceLastLine":  {"GenAnsi.ReplaceLastLine", []string{"string", "string"}, "string", true, false},
	"ansi.SetLength":        {"GenAnsi.SetLength", []string{"string", "int", "string"}, "string", true, false},
	"ansi.Indent":           {"Ansi.indent", []string{"string", "string", "bool"}, "string", false, false},
	"style.Color":           {"Style.color", []string{"string"}, "string", false, true},
	"style.Highlight":       {"Style.highlight", []string{"string"}, "string", false, true},
	"strings.TrimSuffix":    {"Go.Strings.trimSuffix", []string{"string", "string"}, "string", false, false},
}

var v12FeedMethods = map[string]string{"Contains": "bool", "IsParent": "bool", "IsChild": "bool", "Get": "item"}

func (g *v12) expr(e ast.Expr) (string, string) {
	switch x := e.(type) {
	case *ast.BasicLit:
		switch x.Kind {
		case token.INT:
			return x.Value, "lit"
		case token.STRING:
			return g.str(x), "string"
		}
	case *ast.Ident:
		switch x.Name {
		case "true", "false":
			return x.Name, "bool"
		}
		if k, ok := g.vars[x.Name]; ok {
			return leanIdent(x.Name), k
		}
		if g.modeSet[x.Name] {
			return x.Name, "int"
		}
	case *ast.ParenExpr:
		t, k := g.expr(x.X)
		return "(" + t + ")", k
	case *ast.SelectorExpr:
		if exprString(x) == "config.Parsed.Network.Context" {
			g.ctx = true
			return "context", "int"
		}
		if id, ok := x.X.(*ast.Ident); ok && id.Name == g.recv {
			return g.field("State", id.Name, x.Sel.Name)
		}
		if id, isId := x.X.(*ast.Ident); !isId || g.vars[id.Name] != "" {
			t, k := g.expr(x.X)
			if k == "page" {
				return g.field("Page", t, x.Sel.Name)
			}
		}
	case *ast.UnaryExpr:
		t, k := g.expr(x.X)
		switch {
		case x.Op == token.SUB && (k == "int" || k == "lit"):
			return "(-" + t + ")", k
		case x.Op == token.NOT && k == "bool":
			return "(!" + t + ")", "bool"
		}
	case *ast.BinaryExpr:
		l, lk := g.expr(x.X)
		r, rk := g.expr(x.Y)
		k := lk
		if lk == "lit" {
			k = rk
		} else if rk != "lit" && rk != lk {
			return g.fail("operands of different types in %s", exprFull(x)), "?"
		}
		if k == "lit" {
			k = "int"
		}
		switch x.Op {
		case token.ADD:
			switch k {
			case "string":
				return "(" + l + " ++ " + r + ")", k
			case "int":
				return "(" + l + " + " + r + ")", k
			}
		case token.SUB:
			if k == "int" {
				return "(" + l + " - " + r + ")", k
			}
		case token.LSS, token.GTR, token.LEQ, token.GEQ:
			if k == "int" {
				op := map[token.Token]string{token.LSS: "<", token.GTR: ">", token.LEQ: "≤", token.GEQ: "≥"}[x.Op]
				return "decide (" + l + " " + op + " " + r + ")", "bool"
			}
		case token.EQL, token.NEQ:
			if k == "int" || k == "string" {
				op := map[token.Token]string{token.EQL: "=", token.NEQ: "≠"}[x.Op]
				return "decide (" + l + " " + op + " " + r + ")", "bool"
			}
		case token.LAND, token.LOR:
			if k == "bool" {
				if v12Effects(r) {
					f := map[token.Token]string{token.LAND: "Go.land", token.LOR: "Go.lor"}[x.Op]
					if !strings.HasPrefix(l, "(") {
						l = "(" + l + ")"
					}
					return "(← " + f + " " + l + " (do return " + r + "))", "bool"
				}
				op := map[token.Token]string{token.LAND: "&&", token.LOR: "||"}[x.Op]
				return "(" + l + " " + op + " " + r + ")", "bool"
			}
		}
	case *ast.CallExpr:
		if id, ok := x.Fun.(*ast.Ident); ok && id.Name == "uint" && len(x.Args) == 1 {
			t, k := g.expr(x.Args[0])
			if k == "int" || k == "lit" {
				return "(Go.toUint " + t + ")", "uint"
			}
		}
		se, ok := x.Fun.(*ast.SelectorExpr)
		if !ok {
			break
		}
		if ext, ok := v12Extern[exprString(se)]; ok {
			if a, ok := g.args(x, ext.args...); ok {
				if ext.colors {
					a = append([]string{"c"}, a...)
				}
				call := ext.lean + " " + strings.Join(a, " ")
				if ext.monad {
					return "(← " + call + ")", ext.res
				}
				return "(" + call + ")", ext.res
			}
			return g.fail("arguments of %s", exprFull(x)), "?"
		}
		if id, isIdent := se.X.(*ast.Ident); isIdent && g.vars[id.Name] == "" && id.Name != g.recv {
			break // a package this translator knows nothing about
		}
		rt, rk := g.expr(se.X)
		switch rk {
		case "history":
			if se.Sel.Name == "Current" && len(x.Args) == 0 {
				return "(← GenHistory.Current " + rt + ")", "page"
			}
		case "feed":
			if res, ok := v12FeedMethods[se.Sel.Name]; ok {
				if a, ok := g.args(x, "int"); ok {
					return "(← GenFeed." + se.Sel.Name + " " + rt + " " + a[0] + ")", res
				}
			}
		case "item":
			ft, ok := g.iface[se.Sel.Name]
			if ok && v12IntToString(ft) {
				if a, ok := g.args(x, "int"); ok {
					g.tmeth[se.Sel.Name] = true
					return "((← Go.deref " + rt + ")." + se.Sel.Name + " " + a[0] + ")", "string"
				}
			}
		}
	}
	return g.fail("expression %s", exprFull(e)), "?"
}

/* func(int) string */
func v12IntToString(ft *ast.FuncType) bool {
	if ft.Params == nil || len(ft.Params.List) != 1 || len(ft.Params.List[0].Names) > 1 || ft.Results == nil || len(ft.Results.List) != 1 {
		return false
	}
	p, pok := ft.Params.List[0].Type.(*ast.Ident)
	r, rok := ft.Results.List[0].Type.(*ast.Ident)
	return pok && rok && p.Name == "int" && r.Name == "string"
}

func (g *v12) declare(ind int, name, kind, value string, mutable bool) {
	if name == "c" || name == "context" || name == g.recv || g.modeSet[name] {
		g.line(ind, "let _ := "+g.fail("local %s clashes with a name of the translation", name))
		return
	}
	if _, dup := g.vars[name]; dup {
		g.line(ind, "let _ := "+g.fail("%s declared twice (shadowing is not translated)", name))
		return
	}
	if kind == "lit" {
		kind = "int"
	}
	lt, ok := v12LeanType[kind]
	if !ok {
		g.line(ind, "let _ := "+g.fail("declaration of %s", name))
		return
	}
	g.vars[name] = kind
	mut := ""
	if mutable {
		mut = "mut "
	}
	g.line(ind, "let "+mut+leanIdent(name)+" : "+lt+" := "+value)
}

func (g *v12) block(ind int, list []ast.Stmt) {
	if len(list) == 0 {
		g.line(ind, "pure ()")
	}
	for _, st := range list {
		g.stmt(ind, st)
	}
}

func v12HasBranch(n ast.Node) bool {
	found := false
	ast.Inspect(n, func(m ast.Node) bool {
		switch m.(type) {
		case *ast.BranchStmt, *ast.ReturnStmt, *ast.GoStmt, *ast.DeferStmt, *ast.LabeledStmt, *ast.FuncLit:
			found = true
		}
		return true
	})
	return found
}

/* for x > e && rest { …; x-- }   /   for x < e && rest { …; x++ } */
func (g *v12) condLoop(ind int, fs *ast.ForStmt) {
	bad := func(why string) { g.line(ind, "let _ := "+g.fail("for %s: %s", exprFull(fs.Cond), why)) }
	first := fs.Cond
	for {
		be, ok := first.(*ast.BinaryExpr)
		if !ok || be.Op != token.LAND {
			break
		}
		first = be.X
	}
	cmp, ok := first.(*ast.BinaryExpr)
	if !ok || (cmp.Op != token.GTR && cmp.Op != token.LSS) {
		bad("the condition does not start with a strict comparison")
		return
	}
	xv, ok := cmp.X.(*ast.Ident)
	if !ok || g.vars[xv.Name] != "int" {
		bad("the left side of the comparison is not an int variable")
		return
	}
	bound, bk := g.expr(cmp.Y)
	if (bk != "int" && bk != "lit") || v12Effects(bound) {
		bad("the bound is not a pure int expression")
		return
	}
	if v12HasBranch(fs.Body) {
		bad("the body branches")
		return
	}
	want := token.DEC
	if cmp.Op == token.LSS {
		want = token.INC
	}
	steps := 0
	rest := []ast.Stmt{}
	for _, st := range fs.Body.List {
		if id, ok := st.(*ast.IncDecStmt); ok && isIdent(id.X, xv.Name) && id.Tok == want {
			steps++
			continue
		}
		rest = append(rest, st)
	}
	changed := map[string]bool{}
	for _, st := range rest {
		for n := range assignedIdents(st) {
			changed[n] = true
		}
	}
	if steps != 1 || changed[xv.Name] {
		bad("the body does not step " + xv.Name + " exactly once")
		return
	}
	for n := range changed {
		if mentionsIdent(cmp.Y, n) {
			bad("the body changes " + n + ", which the bound mentions")
			return
		}
	}
	cond, ck := g.expr(fs.Cond)
	if ck != "bool" {
		bad("condition")
		return
	}
	x := leanIdent(xv.Name)
	g.line(ind, "-- for "+exprFull(fs.Cond)+" { … }: at most "+map[token.Token]string{token.DEC: xv.Name + " - (" + exprFull(cmp.Y) + ")", token.INC: "(" + exprFull(cmp.Y) + ") - " + xv.Name}[want]+" iterations")
	if want == token.DEC {
		g.line(ind, "for _ in Go.budget "+x+" "+bound+" do")
	} else {
		g.line(ind, "for _ in Go.budget "+bound+" "+x+" do")
	}
	g.line(ind+1, "if (!"+cond+") then")
	g.line(ind+2, "break")
	g.loops++
	g.block(ind+1, fs.Body.List)
	g.loops--
}

/* for i := lo; i <= hi; i++ */
func (g *v12) countLoop(ind int, fs *ast.ForStmt) {
	bad := func(why string) { g.line(ind, "let _ := "+g.fail("for loop: %s", why)) }
	init, ok := fs.Init.(*ast.AssignStmt)
	if !ok || init.Tok != token.DEFINE || len(init.Lhs) != 1 || len(init.Rhs) != 1 {
		bad("initialisation")
		return
	}
	iv, ok := init.Lhs[0].(*ast.Ident)
	if !ok {
		bad("initialisation")
		return
	}
	lo, lk := g.expr(init.Rhs[0])
	cond, ok := fs.Cond.(*ast.BinaryExpr)
	if !ok || !isIdent(cond.X, iv.Name) || (cond.Op != token.LSS && cond.Op != token.LEQ) {
		bad("condition " + exprFull(fs.Cond))
		return
	}
	post, ok := fs.Post.(*ast.IncDecStmt)
	if !ok || post.Tok != token.INC || !isIdent(post.X, iv.Name) {
		bad("post statement")
		return
	}
	hi, hk := g.expr(cond.Y)
	if (lk != "int" && lk != "lit") || (hk != "int" && hk != "lit") || v12Effects(lo) || v12Effects(hi) {
		bad("the bounds are not pure int expressions")
		return
	}
	changed := assignedIdents(fs.Body)
	if changed[iv.Name] {
		bad("the body changes the counter")
		return
	}
	for name := range changed {
		if mentionsIdent(cond.Y, name) {
			bad("the body changes " + name + ", which the bound mentions")
			return
		}
	}
	hasBad := false
	ast.Inspect(fs.Body, func(m ast.Node) bool {
		switch m.(type) {
		case *ast.GoStmt, *ast.DeferStmt, *ast.LabeledStmt, *ast.FuncLit:
			hasBad = true
		}
		return true
	})
	if hasBad {
		bad("go / defer / label / closure in the body")
		return
	}
	if cond.Op == token.LEQ {
		hi = "(" + hi + " + 1)"
	}
	if _, dup := g.vars[iv.Name]; dup || iv.Name == "c" || iv.Name == "context" || iv.Name == g.recv || g.modeSet[iv.Name] {
		bad("the counter's name is taken")
		return
	}
	g.line(ind, "-- for "+iv.Name+" := "+exprFull(init.Rhs[0])+"; "+exprFull(fs.Cond)+"; "+iv.Name+"++")
	g.line(ind, "for "+leanIdent(iv.Name)+" in Go.countUp "+lo+" "+hi+" do")
	g.vars[iv.Name] = "int"
	g.loops++
	g.block(ind+1, fs.Body.List)
	g.loops--
}

func (g *v12) switchStmt(ind int, s *ast.SwitchStmt) {
	if s.Init != nil || s.Tag == nil {
		g.line(ind, "let _ := "+g.fail("switch form"))
		return
	}
	tag, tk := g.expr(s.Tag)
	if v12Effects(tag) || (tk != "int" && tk != "string") {
		g.line(ind, "let _ := "+g.fail("switch tag %s", exprFull(s.Tag)))
		return
	}
	var deflt *ast.CaseClause
	cases := []*ast.CaseClause{}
	for _, c := range s.Body.List {
		cc := c.(*ast.CaseClause)
		if cc.List == nil {
			deflt = cc
			continue
		}
		cases = append(cases, cc)
	}
	g.line(ind, "-- switch "+exprFull(s.Tag))
	body := func(ind int, cc *ast.CaseClause) {
		list := cc.Body
		/* a trailing `break` leaves the switch: nothing more to do */
		if n := len(list); n > 0 {
			if br, ok := list[n-1].(*ast.BranchStmt); ok && br.Tok == token.BREAK && br.Label == nil {
				list = list[:n-1]
			}
		}
		for _, st := range list {
			bad := false
			ast.Inspect(st, func(m ast.Node) bool {
				if br, ok := m.(*ast.BranchStmt); ok && br.Tok != token.CONTINUE {
					bad = true
				}
				return true
			})
			if bad {
				g.line(ind, "let _ := "+g.fail("break / fallthrough / goto inside a case"))
				return
			}
		}
		g.block(ind, list)
	}
	for _, cc := range cases {
		if len(cc.List) != 1 {
			g.line(ind, "let _ := "+g.fail("case with several values"))
			return
		}
		v, vk := g.expr(cc.List[0])
		if v12Effects(v) || (vk != tk && vk != "lit") {
			g.line(ind, "let _ := "+g.fail("case %s", exprFull(cc.List[0])))
			return
		}
		g.line(ind, "if decide ("+tag+" = "+v+") then")
		body(ind+1, cc)
		g.line(ind, "else")
		ind++
	}
	if deflt != nil {
		body(ind, deflt)
	} else {
		g.line(ind, "pure ()")
	}
}

func (g *v12) stmt(ind int, st ast.Stmt) {
	switch s := st.(type) {
	case *ast.BlockStmt:
		g.block(ind, s.List)
	case *ast.EmptyStmt:
	case *ast.ReturnStmt:
		if len(s.Results) != 1 {
			g.line(ind, "let _ := "+g.fail("return arity"))
			return
		}
		if g.loops > 0 {
			g.line(ind, "let _ := "+g.fail("return inside a loop"))
			return
		}
		t, k := g.expr(s.Results[0])
		if k != "string" {
			t = g.fail("return of a %s", k)
		}
		g.line(ind, "return "+t)
	case *ast.IfStmt:
		if s.Init != nil {
			g.line(ind, "let _ := "+g.fail("if with init"))
			return
		}
		t, k := g.expr(s.Cond)
		if k != "bool" {
			t = g.fail("condition %s", exprFull(s.Cond))
		}
		g.line(ind, "if "+t+" then")
		g.block(ind+1, s.Body.List)
		if s.Else != nil {
			g.line(ind, "else")
			g.stmt(ind+1, s.Else)
		}
	case *ast.SwitchStmt:
		g.switchStmt(ind, s)
	case *ast.ForStmt:
		switch {
		case s.Cond != nil && s.Init == nil && s.Post == nil:
			g.condLoop(ind, s)
		case s.Cond != nil && s.Init != nil && s.Post != nil:
			g.countLoop(ind, s)
		default:
			g.line(ind, "let _ := "+g.fail("for loop form"))
		}
	case *ast.BranchStmt:
		if s.Tok == token.CONTINUE && s.Label == nil && g.loops > 0 {
			g.line(ind, "continue")
			return
		}
		g.line(ind, "let _ := "+g.fail("%s", s.Tok))
	case *ast.ExprStmt:
		if call, ok := s.X.(*ast.CallExpr); ok {
			if id, ok := call.Fun.(*ast.Ident); ok && id.Name == "panic" && len(call.Args) == 1 {
				if bl, ok := call.Args[0].(*ast.BasicLit); ok && bl.Kind == token.STRING {
					if u, err := strconv.Unquote(bl.Value); err == nil {
						g.line(ind, "throw (Panic.explicit "+leanStr(u)+")")
						return
					}
				}
			}
		}
		g.line(ind, "let _ := "+g.fail("expression statement %s", exprFull(s.X)))
	case *ast.DeclStmt:
		gd, ok := s.Decl.(*ast.GenDecl)
		if !ok || (gd.Tok != token.CONST && gd.Tok != token.VAR) {
			g.line(ind, "let _ := "+g.fail("declaration"))
			return
		}
		for _, sp := range gd.Specs {
			vs := sp.(*ast.ValueSpec)
			switch {
			case len(vs.Values) == len(vs.Names):
				for i, n := range vs.Names {
					t, k := g.expr(vs.Values[i])
					if vs.Type != nil {
						if dk := g.kindOfType(vs.Type); dk != k && !(k == "lit" && (dk == "int" || dk == "uint")) {
							t = g.fail("declared type of %s", n.Name)
						} else {
							k = dk
						}
					}
					if v12Effects(t) && gd.Tok == token.CONST {
						t = g.fail("constant %s", n.Name)
					}
					g.declare(ind, n.Name, k, t, gd.Tok == token.VAR)
				}
			case len(vs.Values) == 0 && vs.Type != nil && gd.Tok == token.VAR:
				k := g.kindOfType(vs.Type)
				z, ok := v12Zero[k]
				for _, n := range vs.Names {
					if !ok {
						g.line(ind, "let _ := "+g.fail("zero value of %s", exprFull(vs.Type)))
						continue
					}
					g.declare(ind, n.Name, k, z, true)
				}
			default:
				g.line(ind, "let _ := "+g.fail("declaration form"))
			}
		}
	case *ast.IncDecStmt:
		id, ok := s.X.(*ast.Ident)
		if !ok || g.vars[id.Name] != "int" {
			g.line(ind, "let _ := "+g.fail("%s on %s", s.Tok, exprFull(s.X)))
			return
		}
		op := map[token.Token]string{token.INC: "+", token.DEC: "-"}[s.Tok]
		g.line(ind, leanIdent(id.Name)+" := ("+leanIdent(id.Name)+" "+op+" 1)")
	case *ast.AssignStmt:
		if len(s.Lhs) != len(s.Rhs) {
			g.line(ind, "let _ := "+g.fail("assignment arity"))
			return
		}
		rhs := make([]string, len(s.Rhs))
		kinds := make([]string, len(s.Rhs))
		for i, r := range s.Rhs {
			rhs[i], kinds[i] = g.expr(r)
		}
		if len(s.Lhs) > 1 && s.Tok != token.DEFINE {
			g.line(ind, "let _ := "+g.fail("parallel assignment"))
			return
		}
		for i, l := range s.Lhs {
			id, ok := l.(*ast.Ident)
			if !ok {
				g.line(ind, "let _ := "+g.fail("assignment target %s", exprFull(l)))
				continue
			}
			name := leanIdent(id.Name)
			if s.Tok == token.DEFINE {
				g.declare(ind, id.Name, kinds[i], rhs[i], true)
				continue
			}
			vk, declared := g.vars[id.Name]
			if !declared || (vk != kinds[i] && !(kinds[i] == "lit" && (vk == "int" || vk == "uint"))) {
				g.line(ind, "let _ := "+g.fail("assignment to %s", id.Name))
				continue
			}
			switch {
			case s.Tok == token.ASSIGN:
				g.line(ind, name+" := "+rhs[i])
			case s.Tok == token.ADD_ASSIGN && vk == "string":
				g.line(ind, name+" := ("+name+" ++ "+rhs[i]+")")
			case s.Tok == token.ADD_ASSIGN && vk == "int":
				g.line(ind, name+" := ("+name+" + "+rhs[i]+")")
			case s.Tok == token.SUB_ASSIGN && vk == "int":
				g.line(ind, name+" := ("+name+" - "+rhs[i]+")")
			default:
				g.line(ind, "let _ := "+g.fail("assignment operator %s", s.Tok))
			}
		}
	default:
		g.line(ind, "let _ := "+g.fail("statement %T", st))
	}
}

/* the const block that declares `loading`: names and values (iota with implicit repetition only) */
func (g *v12) modeBlock(f *ast.File) []string {
	out := []string{}
	for _, d := range f.Decls {
		gd, ok := d.(*ast.GenDecl)
		if !ok || gd.Tok != token.CONST {
			continue
		}
		has := false
		for _, sp := range gd.Specs {
			for _, n := range sp.(*ast.ValueSpec).Names {
				if n.Name == "loading" {
					has = true
				}
			}
		}
		if !has {
			continue
		}
		for i, sp := range gd.Specs {
			vs := sp.(*ast.ValueSpec)
			okForm := len(vs.Names) == 1 && vs.Type == nil &&
				((i == 0 && len(vs.Values) == 1 && isIdent(vs.Values[0], "iota")) || (i > 0 && len(vs.Values) == 0))
			if !okForm {
				out = append(out, "-- "+g.fail("mode constant %s", vs.Names[0].Name))
				continue
			}
			g.modes = append(g.modes, vs.Names[0].Name)
			g.modeSet[vs.Names[0].Name] = true
			out = append(out, fmt.Sprintf("def %s : Int := %d", vs.Names[0].Name, i))
		}
		return out
	}
	return []string{"-- " + g.fail("no const block declares the mode `loading`")}
}

func translateView(root string) (string, []string) {
	f := parseFile(root, "ui/ui.go")
	g := &v12{vars: map[string]string{}, structs: map[string]*ast.StructType{}, used: map[string]map[string]bool{},
		modeSet: map[string]bool{}, iface: map[string]*ast.FuncType{}, tmeth: map[string]bool{}}
	var fd *ast.FuncDecl
	for _, d := range f.Decls {
		switch x := d.(type) {
		case *ast.GenDecl:
			if x.Tok == token.TYPE {
				for _, sp := range x.Specs {
					ts := sp.(*ast.TypeSpec)
					if st, ok := ts.Type.(*ast.StructType); ok {
						g.structs[ts.Name.Name] = st
					}
				}
			}
		case *ast.FuncDecl:
			if x.Name.Name == "view" && x.Recv != nil && len(x.Recv.List) == 1 && exprString(x.Recv.List[0].Type) == "*State" {
				fd = x
			}
		}
	}
	/* pub.Tangible */
	for _, d := range parseFile(root, "pub/interfaces.go").Decls {
		if gd, ok := d.(*ast.GenDecl); ok && gd.Tok == token.TYPE {
			for _, sp := range gd.Specs {
				ts := sp.(*ast.TypeSpec)
				if it, ok := ts.Type.(*ast.InterfaceType); ok && ts.Name.Name == "Tangible" {
					for _, m := range it.Methods.List {
						if ft, ok := m.Type.(*ast.FuncType); ok && len(m.Names) == 1 {
							g.iface[m.Names[0].Name] = ft
						}
					}
				}
			}
		}
	}
	modeDefs := g.modeBlock(f)
	var body strings.Builder
	sig := ""
	if fd == nil {
		g.fail("func (s *State) view() not found")
	} else {
		g.recv = recvName(fd)
		okSig := len(fd.Type.Params.List) == 0 && fd.Type.Results != nil && len(fd.Type.Results.List) == 1 &&
			exprString(fd.Type.Results.List[0].Type) == "string" && g.recv != ""
		if !okSig {
			g.fail("signature of view")
		}
		g.block(1, fd.Body.List)
		body = g.b
		g.b = strings.Builder{}
		sig = "def view (c : Colors) (context : Int) (" + g.recv + " : State) : Except Panic Str := do"
	}
	/* every &Page{…} sets feed: a page's feed is never nil */
	ast.Inspect(f, func(n ast.Node) bool {
		if cl, ok := n.(*ast.CompositeLit); ok && isIdent(cl.Type, "Page") {
			has := false
			for _, e := range cl.Elts {
				if kv, ok := e.(*ast.KeyValueExpr); ok && isIdent(kv.Key, "feed") {
					if !isIdent(kv.Value, "nil") {
						has = true
					}
				}
			}
			if !has {
				g.fail("a Page literal without a feed (line %d): Page.feed may be nil", fset.Position(cl.Pos()).Line)
			}
		}
		return true
	})
	/* config.Parsed.Network.Context is an int */
	if g.ctx {
		found := false
		ast.Inspect(parseFile(root, "config/config.go"), func(n ast.Node) bool {
			if fl, ok := n.(*ast.Field); ok {
				for _, nm := range fl.Names {
					if nm.Name == "Context" && isIdent(fl.Type, "int") {
						found = true
					}
				}
			}
			return true
		})
		if !found {
			g.fail("config.Parsed.Network.Context is not declared as an int field in config/config.go")
		}
	}
	g.line(0, "namespace GenView")
	g.line(0, "")
	g.line(0, "/-- `pub.Tangible` (pub/interfaces.go): the methods `view` calls, as the functions an item carries -/")
	g.line(0, "structure Tangible where")
	ms := []string{}
	for m := range g.tmeth {
		ms = append(ms, m)
	}
	sort.Strings(ms)
	for _, m := range ms {
		g.line(1, m+" : Int → Str")
	}
	if len(ms) == 0 {
		g.line(1, "unit : Unit")
	}
	g.line(0, "")
	g.line(0, "/-- the modes: the `const` block of ui/ui.go that declares `loading`, in its order -/")
	for _, l := range modeDefs {
		g.line(0, l)
	}
	g.line(0, "")
	for _, sn := range []string{"Page", "State"} {
		st, ok := g.structs[sn]
		if !ok {
			g.fail("type %s struct not found", sn)
			continue
		}
		carried, dropped := []string{}, []string{}
		for _, fl := range st.Fields.List {
			for _, n := range fl.Names {
				if g.used[sn][n.Name] {
					carried = append(carried, leanIdent(n.Name)+" : "+v12LeanType[g.kindOfType(fl.Type)])
				} else {
					dropped = append(dropped, n.Name)
				}
			}
		}
		g.line(0, "/-- `type "+sn+" struct`: the fields `view` reads (not carried: "+strings.Join(dropped, ", ")+") -/")
		g.line(0, "structure "+sn+" where")
		for _, cf := range carried {
			g.line(1, cf)
		}
		if len(carried) == 0 {
			g.line(1, "unit : Unit")
		}
		g.line(0, "")
	}
	if sig != "" {
		g.line(0, sig)
		g.b.WriteString(body.String())
		g.line(0, "")
	}
	g.line(0, "end GenView")
	return g.b.String(), g.err
}
