package main

/*
go2lean: a translator from a small imperative subset of Go to Lean 4 `do` blocks in the
`Except Panic` monad. It is applied to history/history.go and feed/feed.go on every run; the
output (lean/Generated/GoCode.lean) is what `Props/Gen18.lean` proves equal to the hand-written
model, so the C18 theorems are re-checked against what the source says now.

Subset (anything else makes the translator fail loudly, which breaks the proof obligation):
  types        int, bool, []T, map[int]V, type parameters, named interface types (nil-able:
               translated to `Option X` with `X` a type parameter), pointers to the struct itself
  declarations one struct per file, methods with pointer receivers, constructor functions
  statements   if/else, =, +=, -=, :=, return, expression statements that call a method of the
               struct, `for i, e := range slice`, panic(...)
  expressions  identifiers, field selection, integer literals, + - unary -, comparisons, && || !,
               len, append(s, x), s[i], s[:k], m[k], composite literals, calls of own methods,
               `x == nil` / `x != nil` on slices

Semantics chosen (in lean/Model/GoSem.lean): int is unbounded `Int`; a slice is its visible
part (`List`), `s[:k]` requires 0 <= k <= len(s) (the spare capacity is not modelled), a nil slice is
the empty list; a map is a total function returning the zero value for missing keys.
*/

import (
	"fmt"
	"go/ast"
	"go/token"
	"sort"
	"strings"
)

type g2l struct {
	b        strings.Builder
	structNm string
	tparams  []string          // Lean type parameters of the structure
	fields   map[string]string // field -> kind: "int", "bool", "slice", "map"
	ftypes   map[string]string // field -> Lean type
	forder   []string
	mutating map[string]bool // method -> assigns to the receiver
	results  map[string]string
	methods  map[string]*ast.FuncDecl
	err      []string
	vars     map[string]string // local/param name -> kind ("recv", "slice", "int", "iface", "bool")
	recv     string            // name of the variable holding the struct in the current function
	isMut    bool
	ctor     bool
}

func (g *g2l) fail(format string, a ...any) string {
	msg := fmt.Sprintf(format, a...)
	g.err = append(g.err, msg)
	return "(sorry_untranslatable /- " + msg + " -/)"
}

func (g *g2l) leanType(e ast.Expr) (string, string) {
	switch t := e.(type) {
	case *ast.Ident:
		switch t.Name {
		case "int":
			return "Int", "int"
		case "bool":
			return "Bool", "bool"
		}
		if t.Name == g.structNm {
			return g.structApplied(), "recv"
		}
		for _, p := range g.tparams {
			if p == t.Name {
				return t.Name, "tparam"
			}
		}
		return g.fail("type %s", t.Name), "?"
	case *ast.StarExpr:
		return g.leanType(t.X)
	case *ast.ArrayType:
		if t.Len == nil {
			et, _ := g.leanType(t.Elt)
			return "List " + paren(et), "slice"
		}
	case *ast.MapType:
		kt, _ := g.leanType(t.Key)
		vt, _ := g.leanType(t.Value)
		return "Go.Map " + paren(kt) + " " + paren(vt), "map"
	case *ast.SelectorExpr:
		/* a named interface type of another package: nil-able */
		return "Option " + t.Sel.Name, "iface"
	case *ast.IndexExpr:
		return g.leanType(t.X)
	}
	return g.fail("type %T", e), "?"
}

func paren(s string) string {
	if strings.Contains(s, " ") {
		return "(" + s + ")"
	}
	return s
}

func (g *g2l) structApplied() string {
	return strings.TrimSpace(g.structNm + " " + strings.Join(g.tparams, " "))
}

func collectIfaceParams(f *ast.File) []string {
	seen := map[string]bool{}
	ast.Inspect(f, func(n ast.Node) bool {
		if se, ok := n.(*ast.SelectorExpr); ok {
			if id, ok := se.X.(*ast.Ident); ok && id.Name == "pub" {
				seen[se.Sel.Name] = true
			}
		}
		return true
	})
	out := []string{}
	for k := range seen {
		out = append(out, k)
	}
	sort.Strings(out)
	return out
}

func recvName(fd *ast.FuncDecl) string {
	if fd.Recv == nil || len(fd.Recv.List) == 0 || len(fd.Recv.List[0].Names) == 0 {
		return ""
	}
	return fd.Recv.List[0].Names[0].Name
}

/* does the body assign to a field of `v`, or call a mutating method on it? */
func (g *g2l) assignsTo(body *ast.BlockStmt, v string) bool {
	found := false
	ast.Inspect(body, func(n ast.Node) bool {
		switch s := n.(type) {
		case *ast.AssignStmt:
			for _, l := range s.Lhs {
				if g.rootedAt(l, v) {
					found = true
				}
			}
		case *ast.IncDecStmt:
			if g.rootedAt(s.X, v) {
				found = true
			}
		case *ast.CallExpr:
			if se, ok := s.Fun.(*ast.SelectorExpr); ok {
				if id, ok := se.X.(*ast.Ident); ok && id.Name == v && g.mutating[se.Sel.Name] {
					found = true
				}
			}
		}
		return true
	})
	return found
}

func (g *g2l) rootedAt(e ast.Expr, v string) bool {
	switch x := e.(type) {
	case *ast.SelectorExpr:
		if id, ok := x.X.(*ast.Ident); ok && id.Name == v {
			return true
		}
	case *ast.IndexExpr:
		return g.rootedAt(x.X, v)
	}
	return false
}

func (g *g2l) expr(e ast.Expr) string {
	switch x := e.(type) {
	case *ast.BasicLit:
		if x.Kind == token.INT {
			return x.Value
		}
		if x.Kind == token.STRING {
			return x.Value
		}
	case *ast.Ident:
		switch x.Name {
		case "true", "false":
			return x.Name
		case "nil":
			return "none"
		}
		return x.Name
	case *ast.ParenExpr:
		return "(" + g.expr(x.X) + ")"
	case *ast.SelectorExpr:
		if id, ok := x.X.(*ast.Ident); ok {
			if g.vars[id.Name] == "recv" {
				return id.Name + "." + x.Sel.Name
			}
		}
	case *ast.UnaryExpr:
		switch x.Op {
		case token.SUB:
			return "(-" + g.expr(x.X) + ")"
		case token.NOT:
			return "(!" + g.expr(x.X) + ")"
		case token.AND:
			return g.expr(x.X)
		}
	case *ast.BinaryExpr:
		l, r := g.expr(x.X), g.expr(x.Y)
		if id, ok := x.Y.(*ast.Ident); ok && id.Name == "nil" {
			switch x.Op {
			case token.EQL:
				return "(Go.isNil " + l + ")"
			case token.NEQ:
				return "(!Go.isNil " + l + ")"
			}
		}
		switch x.Op {
		case token.ADD:
			return "(" + l + " + " + r + ")"
		case token.SUB:
			return "(" + l + " - " + r + ")"
		case token.LSS:
			return "decide (" + l + " < " + r + ")"
		case token.GTR:
			return "decide (" + l + " > " + r + ")"
		case token.LEQ:
			return "decide (" + l + " ≤ " + r + ")"
		case token.GEQ:
			return "decide (" + l + " ≥ " + r + ")"
		case token.EQL:
			return "decide (" + l + " = " + r + ")"
		case token.NEQ:
			return "decide (" + l + " ≠ " + r + ")"
		case token.LAND:
			return "(" + l + " && " + r + ")"
		case token.LOR:
			return "(" + l + " || " + r + ")"
		}
	case *ast.IndexExpr:
		base := g.expr(x.X)
		switch g.kindOf(x.X) {
		case "slice":
			return "(← Go.index " + base + " " + g.expr(x.Index) + ")"
		case "map":
			return "(Go.mapGet " + base + " " + g.expr(x.Index) + ")"
		}
	case *ast.SliceExpr:
		if x.Low == nil && x.High != nil && x.Max == nil {
			return "(← Go.sliceTo " + g.expr(x.X) + " " + g.expr(x.High) + ")"
		}
	case *ast.CompositeLit:
		return g.composite(x)
	case *ast.CallExpr:
		if id, ok := x.Fun.(*ast.Ident); ok {
			switch id.Name {
			case "len":
				return "(Go.len " + g.expr(x.Args[0]) + ")"
			case "append":
				if len(x.Args) == 2 && x.Ellipsis == token.NoPos {
					return "(" + g.expr(x.Args[0]) + " ++ [" + g.expr(x.Args[1]) + "])"
				}
			}
		}
		if se, ok := x.Fun.(*ast.SelectorExpr); ok {
			if id, ok := se.X.(*ast.Ident); ok && g.vars[id.Name] == "recv" {
				if _, ok := g.methods[se.Sel.Name]; ok && !g.mutating[se.Sel.Name] {
					args := []string{id.Name}
					for _, a := range x.Args {
						args = append(args, g.expr(a))
					}
					return "(← " + se.Sel.Name + " " + strings.Join(args, " ") + ")"
				}
			}
		}
	}
	return g.fail("expression %s", exprString(e))
}

func (g *g2l) kindOf(e ast.Expr) string {
	switch x := e.(type) {
	case *ast.Ident:
		return g.vars[x.Name]
	case *ast.SelectorExpr:
		if id, ok := x.X.(*ast.Ident); ok && g.vars[id.Name] == "recv" {
			return g.fields[x.Sel.Name]
		}
	case *ast.SliceExpr:
		return "slice"
	}
	return "?"
}

func (g *g2l) composite(x *ast.CompositeLit) string {
	switch t := x.Type.(type) {
	case *ast.ArrayType:
		els := []string{}
		for _, e := range x.Elts {
			els = append(els, g.expr(e))
		}
		return "[" + strings.Join(els, ", ") + "]"
	case *ast.MapType:
		out := "Go.mapEmpty"
		for _, e := range x.Elts {
			kv := e.(*ast.KeyValueExpr)
			out = "(Go.mapSet " + out + " " + g.expr(kv.Key) + " " + g.expr(kv.Value) + ")"
		}
		return out
	case *ast.Ident:
		if t.Name == g.structNm {
			given := map[string]string{}
			for _, e := range x.Elts {
				kv, ok := e.(*ast.KeyValueExpr)
				if !ok {
					return g.fail("positional struct literal")
				}
				given[kv.Key.(*ast.Ident).Name] = g.expr(kv.Value)
			}
			parts := []string{}
			for _, f := range g.forder {
				v, ok := given[f]
				if !ok {
					v = map[string]string{"int": "0", "bool": "false", "slice": "[]", "map": "Go.mapEmpty"}[g.fields[f]]
					if v == "" {
						v = "Go.zero"
					}
				}
				parts = append(parts, f+" := "+v)
			}
			return "({ " + strings.Join(parts, ", ") + " } : " + g.structApplied() + ")"
		}
	}
	return g.fail("composite literal %s", exprString(x.Type))
}

func (g *g2l) line(ind int, s string) {
	g.b.WriteString(strings.Repeat("  ", ind) + s + "\n")
}

func (g *g2l) setField(ind int, v, field, value string) {
	g.line(ind, fmt.Sprintf("%s := { %s with %s := %s }", v, v, field, value))
}

func (g *g2l) ret(ind int, vals []string) {
	switch {
	case g.ctor && len(vals) == 1:
		g.line(ind, "return "+vals[0])
	case g.isMut && len(vals) == 0:
		g.line(ind, "return "+g.recv)
	case g.isMut:
		g.line(ind, "return ("+g.recv+", "+strings.Join(vals, ", ")+")")
	case len(vals) == 0:
		g.line(ind, "return ()")
	default:
		g.line(ind, "return "+strings.Join(vals, ", "))
	}
}

func (g *g2l) stmts(ind int, list []ast.Stmt) {
	for _, st := range list {
		g.stmt(ind, st)
	}
}

func (g *g2l) stmt(ind int, st ast.Stmt) {
	switch s := st.(type) {
	case *ast.BlockStmt:
		g.stmts(ind, s.List)
	case *ast.ReturnStmt:
		vals := []string{}
		for _, r := range s.Results {
			vals = append(vals, g.expr(r))
		}
		g.ret(ind, vals)
	case *ast.IfStmt:
		if s.Init != nil {
			g.line(ind, g.fail("if with init"))
			return
		}
		g.line(ind, "if "+g.expr(s.Cond)+" then")
		g.stmts(ind+1, s.Body.List)
		if len(s.Body.List) == 0 {
			g.line(ind+1, "pure ()")
		}
		if s.Else != nil {
			g.line(ind, "else")
			g.stmt(ind+1, s.Else)
		}
	case *ast.ExprStmt:
		call, ok := s.X.(*ast.CallExpr)
		if !ok {
			g.line(ind, g.fail("expression statement"))
			return
		}
		if id, ok := call.Fun.(*ast.Ident); ok && id.Name == "panic" {
			msg := "\"panic\""
			ast.Inspect(call, func(n ast.Node) bool {
				if bl, ok := n.(*ast.BasicLit); ok && bl.Kind == token.STRING && msg == "\"panic\"" {
					msg = bl.Value
				}
				return true
			})
			g.line(ind, "throw (Panic.explicit "+msg+")")
			return
		}
		if se, ok := call.Fun.(*ast.SelectorExpr); ok {
			if id, ok := se.X.(*ast.Ident); ok && g.vars[id.Name] == "recv" && g.mutating[se.Sel.Name] {
				args := []string{id.Name}
				for _, a := range call.Args {
					args = append(args, g.expr(a))
				}
				g.line(ind, id.Name+" ← "+se.Sel.Name+" "+strings.Join(args, " "))
				return
			}
		}
		g.line(ind, g.fail("call statement %s", exprString(call)))
	case *ast.AssignStmt:
		if len(s.Lhs) != 1 || len(s.Rhs) != 1 {
			g.line(ind, g.fail("multiple assignment"))
			return
		}
		rhs := g.expr(s.Rhs[0])
		switch l := s.Lhs[0].(type) {
		case *ast.Ident:
			if s.Tok == token.DEFINE {
				kind := "int"
				if cl, ok := s.Rhs[0].(*ast.UnaryExpr); ok {
					if c, ok := cl.X.(*ast.CompositeLit); ok {
						if id, ok := c.Type.(*ast.Ident); ok && id.Name == g.structNm {
							kind = "recv"
						}
					}
				}
				g.vars[l.Name] = kind
				g.line(ind, "let mut "+l.Name+" := "+rhs)
				if kind == "recv" {
					g.recv, g.isMut = l.Name, true
				}
				return
			}
			g.line(ind, l.Name+" := "+rhs)
		case *ast.SelectorExpr:
			id, ok := l.X.(*ast.Ident)
			if !ok || g.vars[id.Name] != "recv" {
				g.line(ind, g.fail("assignment target %s", exprString(l)))
				return
			}
			cur := id.Name + "." + l.Sel.Name
			switch s.Tok {
			case token.ASSIGN:
				g.setField(ind, id.Name, l.Sel.Name, rhs)
			case token.ADD_ASSIGN:
				g.setField(ind, id.Name, l.Sel.Name, "("+cur+" + "+rhs+")")
			case token.SUB_ASSIGN:
				g.setField(ind, id.Name, l.Sel.Name, "("+cur+" - "+rhs+")")
			default:
				g.line(ind, g.fail("assignment operator %s", s.Tok))
			}
		case *ast.IndexExpr:
			/* m[k] = v on a map field of the struct */
			se, ok := l.X.(*ast.SelectorExpr)
			if ok {
				if id, ok := se.X.(*ast.Ident); ok && g.vars[id.Name] == "recv" && g.fields[se.Sel.Name] == "map" && s.Tok == token.ASSIGN {
					g.setField(ind, id.Name, se.Sel.Name, "(Go.mapSet "+id.Name+"."+se.Sel.Name+" "+g.expr(l.Index)+" "+rhs+")")
					return
				}
			}
			g.line(ind, g.fail("indexed assignment %s", exprString(l)))
		default:
			g.line(ind, g.fail("assignment target"))
		}
	case *ast.IncDecStmt:
		g.line(ind, g.fail("++/--"))
	case *ast.RangeStmt:
		k, kok := s.Key.(*ast.Ident)
		v, vok := s.Value.(*ast.Ident)
		if !kok || !vok || g.kindOf(s.X) != "slice" {
			g.line(ind, g.fail("range form"))
			return
		}
		g.vars[k.Name], g.vars[v.Name] = "int", "elem"
		g.line(ind, "for p in Go.enumerate "+g.expr(s.X)+" do")
		g.line(ind+1, "let "+k.Name+" : Int := p.1")
		g.line(ind+1, "let "+v.Name+" := p.2")
		g.stmts(ind+1, s.Body.List)
	default:
		g.line(ind, g.fail("statement %T", st))
	}
}

func (g *g2l) resultType(fd *ast.FuncDecl) string {
	if fd.Type.Results == nil || len(fd.Type.Results.List) == 0 {
		return ""
	}
	ts := []string{}
	for _, r := range fd.Type.Results.List {
		t, _ := g.leanType(r.Type)
		ts = append(ts, t)
	}
	return strings.Join(ts, " × ")
}

func (g *g2l) function(fd *ast.FuncDecl) {
	g.vars = map[string]string{}
	params := []string{}
	rv := recvName(fd)
	g.recv, g.isMut = "", false
	if rv != "" {
		g.isMut = g.mutating[fd.Name.Name]
		g.recv = rv
		g.vars[rv] = "recv"
		if g.isMut {
			params = append(params, "("+rv+"0 : "+g.structApplied()+")")
		} else {
			params = append(params, "("+rv+" : "+g.structApplied()+")")
		}
	}
	for _, p := range fd.Type.Params.List {
		t, kind := g.leanType(p.Type)
		for _, n := range p.Names {
			g.vars[n.Name] = kind
			params = append(params, "("+n.Name+" : "+t+")")
		}
	}
	res := g.resultType(fd)
	isCtor := rv == "" && res == g.structApplied()
	var retT string
	switch {
	case isCtor:
		retT = g.structApplied()
	case g.isMut && res == "":
		retT = g.structApplied()
	case g.isMut:
		retT = g.structApplied() + " × " + res
	case res == "":
		retT = "Unit"
	default:
		retT = res
	}
	if fd.Doc != nil {
		g.line(0, "/-- "+strings.TrimSpace(strings.ReplaceAll(fd.Doc.Text(), "-/", "- /"))+" -/")
	}
	g.line(0, fmt.Sprintf("def %s %s : Except Panic %s := do", fd.Name.Name, strings.Join(params, " "), paren(retT)))
	if g.isMut && rv != "" {
		g.line(1, "let mut "+rv+" := "+rv+"0")
	}
	/* a constructor: `return &T{...}`, or a local built up and returned */
	g.ctor = isCtor
	g.stmts(1, fd.Body.List)
	/* fall-through return */
	if n := len(fd.Body.List); n == 0 || !isReturn(fd.Body.List[n-1]) {
		g.ret(1, nil)
	}
	g.line(0, "")
}

func isReturn(s ast.Stmt) bool {
	_, ok := s.(*ast.ReturnStmt)
	return ok
}

func translateFile(f *ast.File, ns string) (string, []string) {
	g := &g2l{fields: map[string]string{}, ftypes: map[string]string{}, mutating: map[string]bool{}, results: map[string]string{}, methods: map[string]*ast.FuncDecl{}}
	/* the struct */
	for _, d := range f.Decls {
		gd, ok := d.(*ast.GenDecl)
		if !ok || gd.Tok != token.TYPE {
			continue
		}
		for _, sp := range gd.Specs {
			ts := sp.(*ast.TypeSpec)
			st, ok := ts.Type.(*ast.StructType)
			if !ok {
				continue
			}
			if g.structNm != "" {
				g.fail("more than one struct")
				continue
			}
			g.structNm = ts.Name.Name
			if ts.TypeParams != nil {
				for _, tp := range ts.TypeParams.List {
					for _, n := range tp.Names {
						g.tparams = append(g.tparams, n.Name)
					}
				}
			}
			g.tparams = append(g.tparams, collectIfaceParams(f)...)
			for _, fl := range st.Fields.List {
				t, kind := g.leanType(fl.Type)
				for _, n := range fl.Names {
					g.fields[n.Name] = kind
					g.ftypes[n.Name] = t
					g.forder = append(g.forder, n.Name)
				}
			}
		}
	}
	funcs := []*ast.FuncDecl{}
	for _, d := range f.Decls {
		if fd, ok := d.(*ast.FuncDecl); ok {
			funcs = append(funcs, fd)
			if fd.Recv != nil {
				g.methods[fd.Name.Name] = fd
			}
		}
	}
	/* which methods mutate the receiver: fixpoint */
	for changed := true; changed; {
		changed = false
		for _, fd := range funcs {
			if rv := recvName(fd); rv != "" && !g.mutating[fd.Name.Name] && g.assignsTo(fd.Body, rv) {
				g.mutating[fd.Name.Name] = true
				changed = true
			}
		}
	}
	/* emit in dependency order: a function after the methods it calls */
	emitted := map[string]bool{}
	order := []*ast.FuncDecl{}
	var visit func(fd *ast.FuncDecl)
	visit = func(fd *ast.FuncDecl) {
		if emitted[fd.Name.Name] {
			return
		}
		emitted[fd.Name.Name] = true
		ast.Inspect(fd.Body, func(n ast.Node) bool {
			if ce, ok := n.(*ast.CallExpr); ok {
				if se, ok := ce.Fun.(*ast.SelectorExpr); ok {
					if m, ok := g.methods[se.Sel.Name]; ok {
						visit(m)
					}
				}
			}
			return true
		})
		order = append(order, fd)
	}
	for _, fd := range funcs {
		visit(fd)
	}
	tp := ""
	for _, p := range g.tparams {
		tp += " (" + p + " : Type)"
	}
	g.line(0, "namespace "+ns)
	g.line(0, "")
	g.line(0, "structure "+g.structNm+tp+" where")
	for _, fl := range g.forder {
		g.line(1, fl+" : "+g.ftypes[fl])
	}
	g.line(0, "")
	if len(g.tparams) > 0 {
		g.line(0, "variable {"+strings.Join(g.tparams, " ")+" : Type}")
		g.line(0, "")
	}
	for _, fd := range order {
		g.function(fd)
	}
	g.line(0, "end "+ns)
	return g.b.String(), g.err
}

/*
one generated file per source unit, so that a change of one source file can only disturb the

	theorems about that file
*/
var goUnits = []string{"history", "feed", "ansi", "style", "object"}

func goCode(root string, unit string) string {
	var b strings.Builder
	emit := func(title, text string, errs []string) {
		b.WriteString("/-! ## " + title + " -/\n\n")
		b.WriteString(text)
		b.WriteString("\n")
		for _, e := range errs {
			b.WriteString("-- UNTRANSLATABLE: " + e + "\n")
		}
	}
	header := func(imports ...string) {
		b.WriteString("/- GENERATED by extract/go2lean*.go from the current source tree on every run. Do not edit. -/\n")
		for _, im := range imports {
			b.WriteString("import " + im + "\n")
		}
		b.WriteString("\n")
	}
	switch unit {
	case "history":
		header("Model.GoSem")
		text, errs := translateFile(parseFile(root, "history/history.go"), "GenHistory")
		emit("history/history.go", text, errs)
	case "feed":
		header("Model.GoSem")
		text, errs := translateFile(parseFile(root, "feed/feed.go"), "GenFeed")
		emit("feed/feed.go", text, errs)
	case "ansi":
		header("Model.GoSem", "Model.Ansi")
		text, errs := translateFuncs(parseFile(root, "ansi/ansi.go"), []string{"Height", "Squash", "CenterVertically", "ReplaceLastLine", "SetLength"}, "GenAnsi", false)
		emit("ansi/ansi.go (vertical layout)", text, errs)
	case "ansih":
		header("Model.GoSem", "Model.GoText")
		text, errs := translateAnsiH(parseFile(root, "ansi/ansi.go"), []string{"collapse", "Apply", "Indent", "Pad", "DumbWrap", "Wrap", "lineIsOnlyWhitespace", "Snip"}, "GenAnsiH")
		emit("ansi/ansi.go (horizontal layout)", text, errs)
	case "style":
		header("Model.GoSem", "Model.Ansi", "Model.Style")
		text, errs := translateFuncs(parseFile(root, "style/style.go"), []string{"background", "foreground", "Bold", "Strikethrough", "Underline", "Italic", "Code", "Highlight", "Color", "Red", "Link", "CodeBlock", "QuoteBlock", "LinkBlock", "Header", "Bullet"}, "GenStyle", true)
		emit("style/style.go", text, errs)
	case "object":
		header("Model.GoSem", "Model.GoJson", "Model.Ansi")
		text, errs := translateErrFuncs(parseFile(root, "object/object.go"), []string{"GetAny", "GetString", "GetNumber", "GetObject", "GetList", "GetTime", "GetURL", "GetMediaType"}, "GenObject")
		emit("object/object.go (typed accessors)", text, errs)
	case "config":
		header("Model.GoSem")
		text, errs := translateConfig(parseFile(root, "config/config.go"))
		emit("config/config.go (struct, defaults, postprocess)", text, errs)
	case "link":
		header("Model.GoSem", "Model.GoJson", "Model.Link")
		text, errs := translateLink(root, "pub/link.go")
		emit("pub/link.go (struct, constructor, methods, selection)", text, errs)
	case "collection":
		header("Model.GoRec", "Model.Json", "Model.Collection")
		text, errs := translateCollection(parseFile(root, "pub/collection.go"))
		emit("pub/collection.go (Harvest, harvestWithEmptyCount)", text, errs)
	case "splicer":
		header("Model.GoSem", "Model.GoSlices")
		text, errs := translateSplicer(parseFile(root, "splicer/splicer.go"), parseFile(root, "pub/interfaces.go"), "Splicer", []string{"Harvest", "clone", "replenish", "microharvest"})
		emit("splicer/splicer.go (element type, Harvest, clone, replenish, microharvest)", text, errs)
	case "mime":
		header("Model.GoSem")
		text, errs := translateMime(parseFile(root, "mime/mime.go"), "MediaType", []string{"Default", "Unknown", "UnknownSubtype", "Parse", "Update", "Matches"})
		emit("mime/mime.go (struct, constructors, Parse, Update, Matches)", text, errs)
	case "jtp":
		header("Model.GoSem", "Model.GoIO")
		text, errs := translateJtp(parseFile(root, "jtp/jtp.go"), []string{"parseStatusLine", "parseContentType", "parseLocation", "validateHeaders", "findLocation", "Get"})
		emit("jtp/jtp.go (the response readers and what Get makes of a response)", text, errs)
	case "jtpfront":
		header("Model.GoSem", "Model.GoIO", "Model.GoNet", "Generated.GoJtp")
		text, errs := translateJtpFront(parseFile(root, "jtp/jtp.go"))
		emit("jtp/jtp.go (Get before the response is read: cache, scheme, dial target, deadline, request)", text, errs)
	case "view":
		header("Model.GoSem", "Model.GoSlices", "Model.GoCtl", "Model.Ansi", "Model.Style", "Generated.GoAnsi", "Generated.GoFeed", "Generated.GoHistory")
		text, errs := translateView(root)
		emit("ui/ui.go ((*State).view)", text, errs)
	case "select":
		header("Model.GoSem", "Model.GoJson", "Model.Link", "Model.Present", "Generated.GoLink", "Generated.GoStyle")
		text, errs := translateSelect(root, "pub", map[string][]string{
			"Post":     {"SelectLink", "Media", "supplement"},
			"Activity": {"SelectLink"},
			"Actor":    {"SelectLink", "ProfilePic", "Banner"},
		}, "pub/link.go")
		emit("pub/post.go, pub/activity.go, pub/actor.go (link numbering and selection)", text, errs)
	case "client":
		header("Model.GoSem", "Model.GoJson", "Model.GoSlices", "Model.GoPtr", "Generated.GoObject")
		text, errs := translateClient(root, "client/client.go", []string{"FetchUnknown"})
		emit("client/client.go (FetchUnknown)", text, errs)
	case "listing":
		header("Model.GoSem", "Model.GoJson", "Model.GoSlices", "Model.Pub", "Model.GoPub", "Generated.GoObject")
		text, errs := translateListing(root)
		emit("pub/actor.go, pub/post.go, pub/common.go (the listing filters: which entry is shown as itself, which as an error item)", text, errs)
	case "newitem":
		header("Model.GoSem", "Model.GoJson", "Model.GoSlices", "Model.Pub", "Model.GoPub", "Model.GoNewitem", "Generated.GoObject", "Generated.GoClient", "Generated.GoListing")
		text, errs := translateNewitem(root)
		emit("pub/post.go, pub/actor.go, pub/activity.go, pub/common.go (the constructors of the items and what they call)", text, errs)
	case "navigate":
		header("Model.GoSem", "Model.GoJson", "Model.GoStrings", "Model.Pub", "Model.GoPub", "Model.GoNewitem", "Model.GoNavigate", "Generated.GoListing", "Generated.GoNewitem")
		text, errs := translateNavigate(root)
		emit("pub/post.go, pub/actor.go, pub/activity.go, pub/failure.go (Parents, Children, the identifiers, Creators, Recipients, Actor, Target, Timestamp), pub/user-input.go (FetchUserInput)", text, errs)
	case "gemtext":
		header("Model.GoSem", "Model.GoText", "Model.GoStrings", "Model.Style", "Generated.GoAnsih", "Generated.GoStyle")
		text, errs := translateGemtext(root)
		emit("gemtext/gemtext.go, plaintext/plaintext.go (the Markup struct, NewMarkup, Render, renderWithLinks)", text, errs)
	case "hypertext":
		header("Model.GoSem", "Model.GoText", "Model.GoStrings", "Model.GoHtml", "Model.Style", "Generated.GoAnsih", "Generated.GoStyle")
		text, errs := translateHypertext(root)
		emit("hypertext/hypertext.go (the structs, mergeText, block, getAttribute, situationalWrap, bad, renderNode, renderChildren, bulletedList, renderWithLinks, Render)", text, errs)
	case "update":
		header("Model.GoSem", "Model.GoSlices", "Model.GoCtl", "Model.GoConv", "Model.Mime", "Generated.GoFeed", "Generated.GoHistory")
		text, errs := translateUpdate(root)
		emit("ui/ui.go ((*State).Update)", text, errs)
	case "switch":
		header("Model.GoSem", "Model.GoSlices", "Model.GoCtl", "Generated.GoFeed", "Generated.GoHistory")
		text, errs := translateSwitch(root)
		emit("ui/ui.go (switchTo, loadSurroundings and its loaders, subcommand, Subcommand, openUserInput, openFeed, SetWidthHeight)", text, errs)
	case "hook":
		header("Model.GoSem", "Model.GoSlices", "Model.GoStrings", "Generated.GoMime")
		text, errs := translateHook(root)
		emit("ui/ui.go ((*State).openExternally and the goroutine it starts)", text, errs)
	case "hex":
		header("Model.GoSem", "Model.GoBytes", "Generated.GoConfig")
		text, errs := translateHex(parseFile(root, "config/config.go"))
		emit("config/config.go (hexToAnsi and parse, on bytes)", text, errs)
	case "present":
		header("Model.GoSem", "Model.GoSlices", "Model.GoJson", "Model.GoText", "Model.GoItem", "Generated.GoLink", "Generated.GoStyle", "Generated.GoAnsih")
		text, errs := translatePresent(root, []string{
			"Post.String", "Post.Preview", "Post.Name", "Post.Timestamp",
			"Actor.String", "Actor.Preview", "Actor.Name", "Actor.Timestamp",
			"Activity.String", "Activity.Preview", "Activity.Name", "Activity.Timestamp",
			"Failure.String", "Failure.Preview", "Failure.Name", "Failure.Timestamp",
		},
			[]string{"background", "foreground", "Bold", "Strikethrough", "Underline", "Italic", "Code", "Highlight", "Color", "Red", "Link", "CodeBlock", "QuoteBlock", "LinkBlock", "Header", "Bullet"},
			[]string{"collapse", "Apply", "Indent", "Pad", "DumbWrap", "Wrap", "lineIsOnlyWhitespace", "Snip"})
		emit("pub/post.go, pub/actor.go, pub/activity.go, pub/failure.go (String, Preview, Name, Timestamp and what they call), style.Problem, ansi.Scrub", text, errs)
	case "webfinger":
		header("Model.GoSem", "Model.GoJson", "Model.GoNet", "Model.GoUrl", "Model.Mime", "Generated.GoObject")
		text, errs := translateWebfinger(root)
		emit("client/client.go (ResolveWebfinger, FetchURL)", text, errs)
	case "main":
		header("Model.GoSem", "Model.GoSlices", "Model.GoTerm", "Generated.GoView")
		text, errs := translateMain(parseFile(root, "main.go"))
		emit("main.go (printRaw, the size poller, the subcommand goroutine, the key loop, the start-up sequence)", text, errs)
		text, errs = translateResize(parseFile(root, "ui/ui.go"))
		emit("ui/ui.go ((*State).SetWidthHeight, the size NewState starts with)", text, errs)
	case "glue":
		header("Model.GoSem", "Model.GoSlices", "Model.GoJson", "Model.GoText", "Model.GoHtml", "Model.GoGlue", "Model.Mime", "Generated.GoSplicer", "Generated.GoObject", "Generated.GoHypertext")
		text, errs := translateGlue(root)
		emit("splicer.NewSplicer, object.GetMarkup, hypertext.NewMarkup, markdown.NewMarkup, style.superscript", text, errs)
	default:
		b.WriteString("-- unknown unit " + unit + "\n")
	}
	return b.String()
}
