package main

/*
go2lean, fourteenth front end: the listing filters of package pub — the code that decides whether
an entry of a listing is shown as the genuine item or as an error item in its place (property
C09) — translated to Lean terms over the item types of the hand-written model
(`lean/Model/Pub.lean`), into `Generated/GoListing.lean`, namespace `GenListing`:

  accessors    `(*Actor).Identifier`, `(*Activity).ActorIdentifier`, `(*Post).ParentIdentifier`
  closures     the function literal passed to `getCollection(o, "outbox", a.id, …)` in
               `NewActorFromObject` (`NewActorFromObject_outbox`); the function literal bound to
               the identifier passed to every `getCollection(o, K, p.id, …)` of
               `NewPostFromObject` (`NewPostFromObject_<identifier>`), with the keys K as a list
  creators     the `for _, creator := range p.creators` of `NewPostFromObject`
               (`NewPostFromObject_creators`: the error the loop returns, or none)
  functions    `getActors`, `getPostOrActor`, `New`, `NewTangible` (pub/common.go)
  kind gates   the head of `NewActorFromObject`, `NewPostFromObject`, `NewActivityFromObject`,
               `NewCollectionFromObject` up to and including the `slices.Contains` test of the
               `type` (`<constructor>_kind`): which `type` strings each constructor accepts and
               which error it answers otherwise — the dispatch of `New` rests on these.

The cut is the model's: the constructors of the items (`NewActivity`, `NewPost`, `NewActor`,
`New…FromObject`) and `client.FetchUnknown` are PARAMETERS of the translated functions, typed from
their Go signatures (`(*T, error)` -> `Except Pub.BErr <model type of T>`), the accessors of
`object.Object` are the translated ones (`GenObject.Get…`, third front end).

  types        `*url.URL` -> `Option Pub.U` (nil is none; `.String()` is `.str`, `.Host` is
               `.host`, each through `Go.deref`: a nil receiver is a panic, never a default; any
               other method or field of a URL is untranslatable); `any` holding JSON -> `JVal`;
               `object.Object`, `map[string]any` -> `Pub.O`; `string` -> `Str`; `*Activity`,
               `*Actor`, `*Post`, `*Collection` -> the model's structures; `*Failure` -> the
               structure generated from its declaration; the interface `Tangible` -> the sum of
               the struct types of the package that have all its methods (from the method sets);
               the `any` that `New` returns -> the sum `Any` of the pointer types stored into it.
  model fields `a.actor` / `a.actorErr` is the one field `ActivityM.actor`, `p.parentObject` /
               `p.parentIdentifier` / `p.parentErr` the one field `PostM.parent` (a pair): a read
               is only translated below a test of the error field (`match`), `a.id` is `.id`.
  errors       a value of `Go.Error` (lean/Model/GoPub.lean): the class of an error returned by a
               parameter, `errors.New(lit)`, `fmt.Errorf(lit, …)` with its `%w` operands, the
               sentinel `ErrWrongType`. `errors.Is(e, object.ErrKeyNotPresent | ErrWrongType)` is
               `Go.Error.is`. After `v, err := f(…)` the code is translated once for the failure
               (`err` non-nil, `v` unusable) and once for success (`err` nil): tests of `err`
               against nil are decided there and only the branch taken is emitted.
  control      continuation style, no joins: the statements after an `if` are translated once per
               path that reaches them. `A || B`, `A && B` in a condition are taken apart in
               evaluation order (so the right operand is only evaluated, and can only panic, when
               Go evaluates it); every comparison is copied with its operator and operands.
               Type assertions `v, ok := x.(T); ok` are matches on the sum.
  loop         `for _, x := range xs { … }` followed by `return p, nil`: a structural recursion
               over `xs`; `return nil, e` in the body ends it with `some e`, `continue` and the
               end of the body go on with the rest.
  fan-out      exactly `out := make([]T, len(xs)); var wg sync.WaitGroup; for i := range xs {
               wg.Add(1); i := i; go func() { BODY; wg.Done() }() }; wg.Wait()` where every path
               through BODY writes `out[i]` exactly once and nothing else outside itself:
               `Go.fanout xs (fun i => the value written)`, in index order. WITHOUT the
               per-iteration copy `i := i` the closures share the loop variable (Go 1.20): refused.
  captured     a closure may read parameters of the enclosing function that are never assigned
               there; anything else captured is refused.

Everything else makes the translator emit `sorry_untranslatable`, an unknown identifier that also
contains a forbidden word: the generated file no longer builds.
*/

import (
	"fmt"
	"go/ast"
	"go/token"
	"go/types"
	"os"
	"path/filepath"
	"sort"
	"strings"
)

type lfVar struct {
	lean    string
	typ     string // Go type as written; "pub.Any" for the `any` that holds items; "&T" for a struct under construction
	state   string // "ok", "unset", "nilerr" (an error known to be nil), "err" (an error known to be non-nil)
	errKind string // "obj", "build", "fetch", "go"
	decl    int
	depth   int
}

type lfScope struct {
	vars    map[string]*lfVar
	names   map[string]int
	known   map[string]string // "a.actor" -> Lean variable bound by the match on the pair field
	depth   int
	cell    string
	cellSet bool
}

func newLfScope() *lfScope {
	return &lfScope{vars: map[string]*lfVar{}, names: map[string]int{}, known: map[string]string{}, depth: 1}
}

func (s *lfScope) clone() *lfScope {
	c := &lfScope{vars: map[string]*lfVar{}, names: map[string]int{}, known: map[string]string{}, depth: s.depth, cell: s.cell, cellSet: s.cellSet}
	for k, v := range s.vars {
		w := *v
		c.vars[k] = &w
	}
	for k, v := range s.names {
		c.names[k] = v
	}
	for k, v := range s.known {
		c.known[k] = v
	}
	return c
}

type lfK func(ind int, sc *lfScope)

type lfHoist struct{ v, term string }

type lfDone struct {
	ext    []string
	usesL  bool
	panics bool
	params []string // Go parameter types
	result string   // Go result type
}

type lfField struct {
	lean string // field of the model structure
	err  string // the Go error field it is paired with ("" for a plain field)
	proj string // projection out of the value of the pair
}

type lfModelStruct struct {
	lean   string
	fields map[string]lfField
	errs   map[string]string // Go error field -> field of the model structure
}

/* the cut: which structure of lean/Model/Pub.lean stands for which struct of package pub */
var lfModel = map[string]lfModelStruct{
	"Activity": {lean: "Pub.ActivityM", fields: map[string]lfField{
		"actor": {lean: "actor", err: "actorErr"}, "kind": {lean: "kind"}, "id": {lean: "id"}},
		errs: map[string]string{"actorErr": "actor"}},
	"Actor": {lean: "Pub.ActorM", fields: map[string]lfField{"id": {lean: "id"}, "kind": {lean: "kind"}}, errs: map[string]string{}},
	"Post": {lean: "Pub.PostM", fields: map[string]lfField{
		"parentObject": {lean: "parent", err: "parentErr", proj: ".1"}, "parentIdentifier": {lean: "parent", err: "parentErr", proj: ".2"},
		"id": {lean: "id"}, "kind": {lean: "kind"}},
		errs: map[string]string{"parentErr": "parent"}},
	"Collection": {lean: "Pub.CollM", fields: map[string]lfField{"id": {lean: "id"}}, errs: map[string]string{}},
}

type lf struct {
	b         *strings.Builder
	errs      []string
	funcs     map[string]*ast.FuncDecl
	methods   map[string]*ast.FuncDecl
	structs   map[string]*ast.StructType
	ifaces    map[string]*ast.InterfaceType
	pkgVars   map[string]ast.Expr
	impls     []string
	cur       string
	ext       []string
	extSig    map[string]string
	usesL     bool
	panics    bool
	hoists    []lfHoist
	fresh     int
	decls     int
	mode      string // "value", "loop", "cell", "gate"
	retType   string // Go type of the result (mode value)
	loopCall  string
	cellVar   string
	cellIdx   string
	consVar   string // the struct under construction (`a := &Actor{}`)
	consType  string
	wg        string
	done      map[string]*lfDone
	anyCtors  map[string]bool
	goroutine bool
	goDepth   int
}

func (g *lf) fail(format string, a ...any) string {
	msg := fmt.Sprintf(format, a...)
	g.errs = append(g.errs, g.cur+": "+msg)
	return "(sorry_untranslatable /- " + strings.ReplaceAll(msg, "-/", "- /") + " -/)"
}

func (g *lf) line(ind int, s string) { g.b.WriteString(strings.Repeat("  ", ind) + s + "\n") }

var lfKeywords = map[string]bool{"at": true, "from": true, "end": true, "show": true, "have": true, "open": true, "then": true,
	"fun": true, "do": true, "in": true, "let": true, "match": true, "with": true, "if": true, "else": true, "by": true, "where": true,
	"instance": true, "structure": true, "namespace": true, "section": true, "variable": true, "def": true, "theorem": true, "import": true,
	"Type": true, "Prop": true, "Sort": true, "some": true, "none": true, "L": true}

func lfCtor(structName string) string { return strings.ToLower(structName[:1]) + structName[1:] }

func typeStr(e ast.Expr) string {
	if e == nil {
		return ""
	}
	return strings.ReplaceAll(types.ExprString(e), "interface{}", "any")
}

/* ---------- types ---------- */

func (g *lf) implements(structName, iface string) bool {
	it, ok := g.ifaces[iface]
	if !ok {
		return false
	}
	for _, m := range it.Methods.List {
		for _, n := range m.Names {
			if _, ok := g.methods[structName+"."+n.Name]; !ok {
				return false
			}
		}
	}
	return true
}

func (g *lf) leanType(t string) string {
	switch t {
	case "*url.URL":
		return "Option Pub.U"
	case "any":
		return "JVal"
	case "pub.Any":
		return "Any"
	case "object.Object", "map[string]any":
		return "Pub.O"
	case "string":
		return "Str"
	case "[]any":
		return "List JVal"
	case "[]Tangible":
		return "List Tangible"
	case "Tangible":
		return "Tangible"
	case "*Failure":
		return "Failure"
	case "error":
		return "Go.Error"
	}
	if strings.HasPrefix(t, "*") {
		if m, ok := lfModel[t[1:]]; ok {
			if _, ok := g.structs[t[1:]]; ok {
				return m.lean
			}
		}
	}
	return g.fail("type %s is outside the translated subset", t)
}

/* value of static type `from` where `to` is expected */
func (g *lf) conv(term, from, to string) string {
	if from == to {
		return term
	}
	if strings.HasPrefix(from, "*") {
		s := from[1:]
		if _, ok := g.structs[s]; ok {
			if to == "Tangible" {
				if g.implements(s, "Tangible") {
					return "(Tangible." + lfCtor(s) + " " + term + ")"
				}
				return g.fail("%s does not implement Tangible", from)
			}
			if to == "pub.Any" {
				g.anyCtors[s] = true
				return "(Any." + lfCtor(s) + " " + term + ")"
			}
		}
	}
	if from == "nil" && to == "*url.URL" {
		return "none"
	}
	if (from == "map[string]any" && to == "object.Object") || (from == "object.Object" && to == "map[string]any") {
		return term
	}
	return g.fail("a %s where a %s is expected", from, to)
}

/* ---------- variables ---------- */

func (g *lf) leanName(sc *lfScope, goName string) string {
	base := strings.ReplaceAll(goName, ".", "_")
	if lfKeywords[base] {
		base += "_"
	}
	n := sc.names[base]
	sc.names[base] = n + 1
	if n == 0 {
		return base
	}
	return fmt.Sprintf("%s_%d", base, n)
}

func (g *lf) declare(sc *lfScope, goName, typ, state string) *lfVar {
	g.decls++
	v := &lfVar{lean: g.leanName(sc, goName), typ: typ, state: state, decl: g.decls, depth: sc.depth}
	sc.vars[goName] = v
	return v
}

/* the scope after a block: variables declared inside are gone, assignments to outer ones stay */
func (g *lf) leave(outer, inner *lfScope) *lfScope {
	res := inner.clone()
	res.depth = outer.depth
	res.vars = map[string]*lfVar{}
	for name, ov := range outer.vars {
		if iv, ok := inner.vars[name]; ok && iv.decl == ov.decl {
			w := *iv
			res.vars[name] = &w
		} else {
			w := *ov
			res.vars[name] = &w
		}
	}
	for name, iv := range inner.vars {
		if strings.Contains(name, ".") {
			w := *iv
			w.depth = 1
			res.vars[name] = &w
		}
	}
	res.known = map[string]string{}
	for k, v := range outer.known {
		res.known[k] = v
	}
	return res
}

func (g *lf) errTerm(v *lfVar) string {
	switch v.errKind {
	case "obj":
		return "(Go.Error.ofObj " + v.lean + ")"
	case "build":
		return "(Go.Error.ofBuild " + v.lean + ")"
	case "fetch":
		return "Go.Error.ofFetch"
	}
	return v.lean
}

/* the name of a variable or of a field of the struct under construction */
func (g *lf) varName(e ast.Expr) (string, bool) {
	switch x := e.(type) {
	case *ast.Ident:
		return x.Name, true
	case *ast.SelectorExpr:
		if id, ok := x.X.(*ast.Ident); ok && g.consVar != "" && id.Name == g.consVar {
			return id.Name + "." + x.Sel.Name, true
		}
	}
	return "", false
}

func (g *lf) consFieldType(field string) string {
	st, ok := g.structs[g.consType]
	if !ok {
		return ""
	}
	for _, f := range st.Fields.List {
		for _, n := range f.Names {
			if n.Name == field {
				return typeStr(f.Type)
			}
		}
	}
	return ""
}

func (g *lf) structFieldType(s, field string) string {
	st, ok := g.structs[s]
	if !ok {
		return ""
	}
	for _, f := range st.Fields.List {
		for _, n := range f.Names {
			if n.Name == field {
				return typeStr(f.Type)
			}
		}
	}
	return ""
}

/* ---------- hoisted operations that can panic ---------- */

func (g *lf) hoist(term string) string {
	if !g.panics {
		return g.fail("an operation that can panic in a function taken to be panic-free")
	}
	g.fresh++
	v := fmt.Sprintf("x%d_", g.fresh)
	g.hoists = append(g.hoists, lfHoist{v, term})
	return v
}

func (g *lf) flush(ind int) int {
	for _, h := range g.hoists {
		g.line(ind, "match "+h.term+" with")
		g.line(ind, "| .error p_ => .error p_")
		g.line(ind, "| .ok "+h.v+" =>")
		ind++
	}
	g.hoists = nil
	return ind
}

func (g *lf) result(term string) string {
	if g.panics {
		return ".ok " + paren14(term)
	}
	return term
}

func paren14(s string) string {
	if strings.HasPrefix(s, "(") || !strings.ContainsAny(s, " ") || strings.HasPrefix(s, "[") {
		return s
	}
	return "(" + s + ")"
}

/* ---------- expressions ---------- */

func (g *lf) lookup(sc *lfScope, name string) (*lfVar, bool) {
	v, ok := sc.vars[name]
	return v, ok
}

func (g *lf) strLit(e ast.Expr) (string, bool) {
	if lit, ok := e.(*ast.BasicLit); ok && lit.Kind == token.STRING {
		return unquote(lit), true
	}
	return "", false
}

func (g *lf) sentinel(e ast.Expr) (string, bool) {
	switch exprString(e) {
	case "object.ErrKeyNotPresent":
		return ".keyNotPresent", true
	case "ErrWrongType":
		if init, ok := g.pkgVars["ErrWrongType"]; ok {
			if c, ok := init.(*ast.CallExpr); ok && exprString(c.Fun) == "errors.New" {
				return ".wrongType", true
			}
		}
	}
	return "", false
}

/* an expression of type error that is known not to be nil */
func (g *lf) errExpr(e ast.Expr, sc *lfScope) string {
	term, typ := g.expr(e, sc)
	if typ != "error" {
		return g.fail("%s is not an error known to be non-nil", exprString(e))
	}
	return term
}

func (g *lf) callArgs(args []ast.Expr, want []string, sc *lfScope) string {
	out := []string{}
	for i, a := range args {
		if i >= len(want) {
			break
		}
		if strings.HasPrefix(want[i], "func(") {
			continue
		}
		t, typ := g.expr(a, sc)
		out = append(out, paren14(g.conv(t, typ, want[i])))
	}
	return strings.Join(out, " ")
}

func (g *lf) sigOf(fd *ast.FuncDecl) (params []string, results []string) {
	for _, f := range fd.Type.Params.List {
		n := len(f.Names)
		if n == 0 {
			n = 1
		}
		for i := 0; i < n; i++ {
			params = append(params, typeStr(f.Type))
		}
	}
	if fd.Type.Results != nil {
		for _, f := range fd.Type.Results.List {
			n := len(f.Names)
			if n == 0 {
				n = 1
			}
			for i := 0; i < n; i++ {
				results = append(results, typeStr(f.Type))
			}
		}
	}
	return
}

func (g *lf) useExt(name, sig string) {
	for _, e := range g.ext {
		if e == name {
			return
		}
	}
	g.ext = append(g.ext, name)
	g.extSig[name] = sig
}

/* call of a function translated earlier: its parameters first */
func (g *lf) callTranslated(name string, args []ast.Expr, sc *lfScope) (string, string) {
	d := g.done[name]
	for _, e := range d.ext {
		g.useExt(e, g.extSig[e])
	}
	parts := []string{name}
	if d.usesL {
		g.usesL = true
		parts = append(parts, "L")
	}
	parts = append(parts, d.ext...)
	if len(args) != len(d.params) {
		return g.fail("%s called with %d arguments", name, len(args)), d.result
	}
	parts = append(parts, g.callArgs(args, d.params, sc))
	term := "(" + strings.Join(parts, " ") + ")"
	if d.panics {
		return g.hoist(term), d.result
	}
	return term, d.result
}

func (g *lf) expr(e ast.Expr, sc *lfScope) (string, string) {
	switch x := e.(type) {
	case *ast.ParenExpr:
		return g.expr(x.X, sc)
	case *ast.BasicLit:
		if s, ok := g.strLit(x); ok {
			return "(Go.str " + leanStr(s) + ")", "string"
		}
	case *ast.Ident:
		if x.Name == "nil" {
			return "none", "nil"
		}
		if v, ok := g.lookup(sc, x.Name); ok {
			switch v.state {
			case "unset":
				return g.fail("%s is read where it has no value (declared without one, or the call that sets it failed)", x.Name), v.typ
			case "nilerr":
				return g.fail("%s is read as a value where it is nil", x.Name), "nil"
			case "err":
				return g.errTerm(v), "error"
			}
			return v.lean, v.typ
		}
		if s, ok := g.sentinel(x); ok {
			return "(Go.Error.sentinel " + s + ")", "error"
		}
		return g.fail("identifier %s", x.Name), ""
	case *ast.SelectorExpr:
		if name, ok := g.varName(x); ok && strings.Contains(name, ".") {
			if v, ok := g.lookup(sc, name); ok && v.state == "ok" {
				return v.lean, v.typ
			}
			return g.fail("%s is read before it is set", name), ""
		}
		recv, rtyp := g.expr(x.X, sc)
		if rtyp == "*url.URL" && x.Sel.Name == "Host" {
			return g.hoist("Go.deref "+paren14(recv)) + ".host", "string"
		}
		if strings.HasPrefix(rtyp, "*") {
			if m, ok := lfModel[rtyp[1:]]; ok {
				f, ok := m.fields[x.Sel.Name]
				ft := g.structFieldType(rtyp[1:], x.Sel.Name)
				if !ok || ft == "" {
					return g.fail("field %s of %s is not carried by the model structure", x.Sel.Name, rtyp), ""
				}
				if f.err == "" {
					return recv + "." + f.lean, ft
				}
				if kv, ok := sc.known[exprString(x.X)+"."+f.lean]; ok {
					return kv + f.proj, ft
				}
				return g.fail("%s is read without a test of %s.%s", exprString(x), exprString(x.X), f.err), ft
			}
		}
		return g.fail("selector %s on a %s", x.Sel.Name, rtyp), ""
	case *ast.IndexExpr:
		xs, xt := g.expr(x.X, sc)
		i, it := g.expr(x.Index, sc)
		if strings.HasPrefix(xt, "[]") && it == "int" {
			return g.hoist("Go.index " + paren14(xs) + " " + paren14(i)), xt[2:]
		}
		return g.fail("index %s", exprString(x)), ""
	case *ast.CompositeLit:
		t := typeStr(x.Type)
		if t == "[]Tangible" {
			elts := []string{}
			for _, el := range x.Elts {
				term, typ := g.expr(el, sc)
				elts = append(elts, g.conv(term, typ, "Tangible"))
			}
			return "[" + strings.Join(elts, ", ") + "]", t
		}
		return g.fail("composite literal of type %s", t), t
	case *ast.CallExpr:
		fn := exprString(x.Fun)
		switch fn {
		case "NewFailure":
			if fd, ok := g.funcs["NewFailure"]; ok && len(x.Args) == 1 {
				if _, rs := g.sigOf(fd); len(rs) == 1 && rs[0] == "*Failure" {
					return "(Failure.mk " + g.errExpr(x.Args[0], sc) + ")", "*Failure"
				}
			}
			return g.fail("NewFailure is not the constructor of Failure from an error"), "*Failure"
		case "errors.New":
			if len(x.Args) == 1 {
				if s, ok := g.strLit(x.Args[0]); ok {
					return "(Go.Error.new (Go.str " + leanStr(s) + "))", "error"
				}
			}
			return g.fail("errors.New of something other than a literal"), "error"
		case "fmt.Errorf":
			if len(x.Args) >= 1 {
				if s, ok := g.strLit(x.Args[0]); ok {
					wrapped := []string{}
					verbs := 0
					for i := 0; i+1 < len(s); i++ {
						if s[i] == '%' {
							if s[i+1] == 'w' || s[i+1] == 's' {
								verbs++
							} else {
								return g.fail("fmt.Errorf verb %%%c", s[i+1]), "error"
							}
						}
					}
					if verbs != len(x.Args)-1 {
						return g.fail("fmt.Errorf: %d verbs, %d operands", verbs, len(x.Args)-1), "error"
					}
					k := 1
					for i := 0; i+1 < len(s); i++ {
						if s[i] == '%' {
							arg := x.Args[k]
							k++
							if s[i+1] == 'w' {
								wrapped = append(wrapped, paren14(g.errExpr(arg, sc)))
							} else if _, typ := g.expr(arg, sc); typ != "string" {
								return g.fail("fmt.Errorf: %%s of a %s", typ), "error"
							}
						}
					}
					switch len(wrapped) {
					case 1:
						return "(Go.Error.errorf1 (Go.str " + leanStr(s) + ") " + wrapped[0] + ")", "error"
					case 2:
						return "(Go.Error.errorf2 (Go.str " + leanStr(s) + ") " + wrapped[0] + " " + wrapped[1] + ")", "error"
					}
					return g.fail("fmt.Errorf with %d %%w operands", len(wrapped)), "error"
				}
			}
			return g.fail("fmt.Errorf without a literal format"), "error"
		case "object.Object":
			if len(x.Args) == 1 {
				t, typ := g.expr(x.Args[0], sc)
				return g.conv(t, typ, "object.Object"), "object.Object"
			}
		}
		if _, ok := g.done[fn]; ok {
			return g.callTranslated(fn, x.Args, sc)
		}
		if se, ok := x.Fun.(*ast.SelectorExpr); ok && len(x.Args) == 0 {
			recv, rtyp := g.expr(se.X, sc)
			if rtyp == "*url.URL" {
				if se.Sel.Name == "String" {
					return g.hoist("Go.deref "+paren14(recv)) + ".str", "string"
				}
				return g.fail("method %s of a URL (only String() and the field Host are understood)", se.Sel.Name), "string"
			}
			if strings.HasPrefix(rtyp, "*") {
				name := rtyp[1:] + "." + se.Sel.Name
				if d, ok := g.done[name]; ok {
					return "(" + name + " " + recv + ")", d.result
				}
				return g.fail("method %s is not among the translated accessors", name), ""
			}
		}
		return g.fail("call %s", fn), ""
	}
	return g.fail("expression %s", exprString(e)), ""
}

/* ---------- conditions ---------- */

func lfIsNil(e ast.Expr) bool {
	id, ok := e.(*ast.Ident)
	return ok && id.Name == "nil"
}

/* a pair-error field of a model structure: (`a`, model field) */
func (g *lf) pairErrField(e ast.Expr, sc *lfScope) (string, string, string, bool) {
	se, ok := e.(*ast.SelectorExpr)
	if !ok {
		return "", "", "", false
	}
	id, ok := se.X.(*ast.Ident)
	if !ok {
		return "", "", "", false
	}
	v, ok := g.lookup(sc, id.Name)
	if !ok || !strings.HasPrefix(v.typ, "*") {
		return "", "", "", false
	}
	m, ok := lfModel[v.typ[1:]]
	if !ok {
		return "", "", "", false
	}
	f, ok := m.errs[se.Sel.Name]
	if !ok || g.structFieldType(v.typ[1:], se.Sel.Name) != "error" {
		return "", "", "", false
	}
	return id.Name, v.lean, f, true
}

/* static: "true" / "false"; dynamic: a Bool term; special: handled by the caller */
func (g *lf) atom(e ast.Expr, sc *lfScope) (static string, term string) {
	switch x := e.(type) {
	case *ast.ParenExpr:
		return g.atom(x.X, sc)
	case *ast.BinaryExpr:
		if x.Op == token.EQL || x.Op == token.NEQ {
			other := x.X
			if lfIsNil(x.X) {
				other = x.Y
			}
			if lfIsNil(x.X) || lfIsNil(x.Y) {
				if name, ok := g.varName(other); ok {
					if v, ok := g.lookup(sc, name); ok && v.typ == "error" {
						switch v.state {
						case "nilerr":
							if x.Op == token.EQL {
								return "true", ""
							}
							return "false", ""
						case "err":
							if x.Op == token.EQL {
								return "false", ""
							}
							return "true", ""
						}
						return "", g.fail("%s is compared with nil before it is set", name)
					}
				}
				t, typ := g.expr(other, sc)
				if typ == "*url.URL" {
					if x.Op == token.EQL {
						return "", "Go.isNilPtr " + paren14(t)
					}
					return "", "!Go.isNilPtr " + paren14(t)
				}
				return "", g.fail("comparison of a %s with nil", typ)
			}
			a, at := g.expr(x.X, sc)
			b, bt := g.expr(x.Y, sc)
			if at == "string" && bt == "string" {
				if x.Op == token.EQL {
					return "", "decide (" + a + " = " + b + ")"
				}
				return "", "decide (" + a + " ≠ " + b + ")"
			}
			return "", g.fail("comparison of a %s with a %s", at, bt)
		}
	case *ast.CallExpr:
		switch exprString(x.Fun) {
		case "errors.Is":
			if len(x.Args) == 2 {
				s, ok := g.sentinel(x.Args[1])
				if !ok {
					return "", g.fail("errors.Is against %s", exprString(x.Args[1]))
				}
				if name, ok := g.varName(x.Args[0]); ok {
					if v, ok := g.lookup(sc, name); ok && v.typ == "error" {
						switch v.state {
						case "nilerr":
							return "false", ""
						case "err":
							return "", "Go.Error.is " + paren14(g.errTerm(v)) + " " + s
						}
					}
				}
				return "", g.fail("errors.Is of %s", exprString(x.Args[0]))
			}
		case "slices.Contains":
			if len(x.Args) == 2 {
				if cl, ok := x.Args[0].(*ast.CompositeLit); ok && typeStr(cl.Type) == "[]string" {
					elts := []string{}
					for _, el := range cl.Elts {
						s, ok := g.strLit(el)
						if !ok {
							return "", g.fail("slices.Contains over a list with a non-literal")
						}
						elts = append(elts, "Go.str "+leanStr(s))
					}
					t, typ := g.expr(x.Args[1], sc)
					if typ != "string" {
						return "", g.fail("slices.Contains of a %s", typ)
					}
					return "", "Go.containsStr [" + strings.Join(elts, ", ") + "] " + paren14(t)
				}
			}
			return "", g.fail("slices.Contains over something other than a literal list of strings")
		}
	}
	return "", g.fail("condition %s", exprString(e))
}

func (g *lf) branch(ind int, cond ast.Expr, sc *lfScope, thenK, elseK lfK) {
	switch x := cond.(type) {
	case *ast.ParenExpr:
		g.branch(ind, x.X, sc, thenK, elseK)
		return
	case *ast.UnaryExpr:
		if x.Op == token.NOT {
			inner := x.X
			for {
				p, ok := inner.(*ast.ParenExpr)
				if !ok {
					break
				}
				inner = p.X
			}
			if be, ok := inner.(*ast.BinaryExpr); ok && (be.Op == token.LOR || be.Op == token.LAND) {
				g.branch(ind, inner, sc, elseK, thenK)
				return
			}
			static, term := g.atom(inner, sc)
			switch static {
			case "true":
				g.line(ind, "-- !("+exprString(inner)+"): false here")
				elseK(ind, sc.clone())
			case "false":
				g.line(ind, "-- !("+exprString(inner)+"): true here")
				thenK(ind, sc.clone())
			default:
				ind = g.flush(ind)
				g.line(ind, "if !("+term+") then (")
				thenK(ind+1, sc.clone())
				g.line(ind+1, ") else")
				elseK(ind+1, sc.clone())
			}
			return
		}
	case *ast.BinaryExpr:
		if x.Op == token.LOR {
			g.branch(ind, x.X, sc, thenK, func(ind int, sc2 *lfScope) { g.branch(ind, x.Y, sc2, thenK, elseK) })
			return
		}
		if x.Op == token.LAND {
			g.branch(ind, x.X, sc, func(ind int, sc2 *lfScope) { g.branch(ind, x.Y, sc2, thenK, elseK) }, elseK)
			return
		}
		if (x.Op == token.EQL || x.Op == token.NEQ) && (lfIsNil(x.X) || lfIsNil(x.Y)) {
			other := x.X
			if lfIsNil(x.X) {
				other = x.Y
			}
			if goRecv, recv, field, ok := g.pairErrField(other, sc); ok {
				ev := g.leanName(sc, goRecv+"_"+exprString(other)[len(goRecv)+1:])
				vv := g.leanName(sc, goRecv+"_"+field)
				errK, okK := thenK, elseK
				if x.Op == token.EQL {
					errK, okK = elseK, thenK
				}
				g.line(ind, "match "+recv+"."+field+" with")
				g.line(ind, "| .error "+ev+" => (")
				errK(ind+1, sc.clone())
				g.line(ind+1, ")")
				g.line(ind, "| .ok "+vv+" =>")
				sc2 := sc.clone()
				sc2.known[goRecv+"."+field] = vv
				okK(ind+1, sc2)
				return
			}
		}
	}
	static, term := g.atom(cond, sc)
	switch static {
	case "true":
		g.line(ind, "-- "+exprString(cond)+": true here")
		thenK(ind, sc.clone())
	case "false":
		g.line(ind, "-- "+exprString(cond)+": false here")
		elseK(ind, sc.clone())
	default:
		ind = g.flush(ind)
		g.line(ind, "if "+term+" then (")
		thenK(ind+1, sc.clone())
		g.line(ind+1, ") else")
		elseK(ind+1, sc.clone())
	}
}

/* ---------- statements ---------- */

func (g *lf) stmts(ind int, list []ast.Stmt, sc *lfScope, k lfK) {
	if len(list) == 0 {
		k(ind, sc)
		return
	}
	if n, ok := g.fanoutShape(list, sc); ok {
		g.fanout(ind, list[:n], sc, func(ind int, sc2 *lfScope) { g.stmts(ind, list[n:], sc2, k) })
		return
	}
	g.stmt(ind, list[0], sc, func(ind int, sc2 *lfScope) { g.stmts(ind, list[1:], sc2, k) })
}

func (g *lf) block(ind int, b *ast.BlockStmt, sc *lfScope, k lfK) {
	inner := sc.clone()
	inner.depth = sc.depth + 1
	g.stmts(ind, b.List, inner, func(ind int, end *lfScope) { k(ind, g.leave(sc, end)) })
}

/* the left side of an assignment or definition: the variable written, declared if need be */
func (g *lf) target(lhs ast.Expr, define bool, typ string, sc *lfScope) *lfVar {
	name, ok := g.varName(lhs)
	if !ok {
		g.fail("assignment to %s", exprString(lhs))
		return &lfVar{lean: "_", typ: typ}
	}
	if name == "_" {
		return &lfVar{lean: "_", typ: typ}
	}
	if strings.Contains(name, ".") {
		ft := g.consFieldType(name[strings.Index(name, ".")+1:])
		if ft == "" {
			g.fail("%s is not a field of %s", name, g.consType)
		}
		if v, ok := sc.vars[name]; ok {
			return v
		}
		return g.declare(sc, name, ft, "unset")
	}
	if v, ok := sc.vars[name]; ok && (!define || v.depth == sc.depth) {
		if g.goroutine && v.depth < g.goDepth {
			g.fail("a goroutine of the fan-out writes %s, a variable outside itself", name)
		}
		return v
	}
	if !define {
		g.fail("assignment to the undeclared %s", name)
	}
	return g.declare(sc, name, typ, "unset")
}

/* `v…, err (:=|=) f(…)` where f returns (…, error): a parameter, an accessor or client.FetchUnknown */
func (g *lf) resultCall(call *ast.CallExpr, sc *lfScope) (term string, values []string, errKind string, ok bool) {
	fn := exprString(call.Fun)
	if fn == "client.FetchUnknown" {
		g.useExt("FetchUnknown", "JVal → Option Pub.U → Except Unit (Pub.O × Option Pub.U)")
		if len(call.Args) != 2 {
			return g.fail("client.FetchUnknown with %d arguments", len(call.Args)), nil, "fetch", true
		}
		return "FetchUnknown " + g.callArgs(call.Args, []string{"any", "*url.URL"}, sc), []string{"object.Object", "*url.URL"}, "fetch", true
	}
	if se, isSel := call.Fun.(*ast.SelectorExpr); isSel {
		if name, isVar := g.varName(se.X); isVar {
			if v, found := g.lookup(sc, name); found && v.typ == "object.Object" && len(call.Args) == 1 {
				var vt string
				switch se.Sel.Name {
				case "GetAny":
					vt = "any"
				case "GetString":
					vt = "string"
				case "GetList":
					vt = "[]any"
				default:
					return "", nil, "", false
				}
				g.usesL = true
				recv, _ := g.expr(se.X, sc)
				return "GenObject." + se.Sel.Name + " L " + recv + " " + g.callArgs(call.Args, []string{"string"}, sc), []string{vt}, "obj", true
			}
		}
	}
	if fd, isFn := g.funcs[fn]; isFn {
		if _, translated := g.done[fn]; translated {
			return "", nil, "", false
		}
		ps, rs := g.sigOf(fd)
		if len(rs) == 2 && rs[1] == "error" && len(ps) == len(call.Args) {
			sig := []string{}
			for i, p := range ps {
				if strings.HasPrefix(p, "func(") {
					/* the constructor a collection applies to its elements is carried by the listing in the model */
					if exprString(call.Args[i]) != "NewTangible" {
						g.fail("%s is handed %s as its constructor", fn, exprString(call.Args[i]))
					}
					continue
				}
				sig = append(sig, g.leanType(p))
			}
			sig = append(sig, "Except Pub.BErr "+g.leanType(rs[0]))
			g.useExt(fn, strings.Join(sig, " → "))
			return fn + " " + g.callArgs(call.Args, ps, sc), []string{rs[0]}, "build", true
		}
	}
	return "", nil, "", false
}

func (g *lf) assign(ind int, s *ast.AssignStmt, sc *lfScope, k lfK) {
	define := s.Tok == token.DEFINE
	if s.Tok != token.DEFINE && s.Tok != token.ASSIGN {
		g.line(ind, g.fail("assignment operator %s", s.Tok))
		return
	}
	/* the struct under construction */
	if len(s.Lhs) == 1 && len(s.Rhs) == 1 && define {
		if u, ok := s.Rhs[0].(*ast.UnaryExpr); ok && u.Op == token.AND {
			if cl, ok := u.X.(*ast.CompositeLit); ok && len(cl.Elts) == 0 && g.mode == "gate" && g.consVar == "" {
				g.consVar = exprString(s.Lhs[0])
				g.consType = typeStr(cl.Type)
				g.line(ind, "-- "+g.consVar+" := &"+g.consType+"{}: its fields are variables here")
				k(ind, sc)
				return
			}
		}
	}
	if len(s.Rhs) == 1 {
		if call, ok := s.Rhs[0].(*ast.CallExpr); ok && len(s.Lhs) >= 2 {
			term, vtypes, errKind, ok := g.resultCall(call, sc)
			if !ok || len(vtypes)+1 != len(s.Lhs) {
				g.line(ind, g.fail("call %s on the right of a multiple assignment", exprString(call.Fun)))
				return
			}
			ind = g.flush(ind)
			/* failure */
			scE := sc.clone()
			for i := range vtypes {
				g.target(s.Lhs[i], define, vtypes[i], scE).state = "unset"
			}
			ev := g.target(s.Lhs[len(s.Lhs)-1], define, "error", scE)
			if ev.typ != "error" {
				g.line(ind, g.fail("the last result is stored in a %s", ev.typ))
				return
			}
			ev.state, ev.errKind = "err", errKind
			if ev.lean == "_" {
				ev.lean = "e_"
			}
			g.line(ind, "match "+term+" with")
			g.line(ind, "| .error "+ev.lean+" => (")
			k(ind+1, scE)
			g.line(ind+1, ")")
			/* success */
			scO := sc.clone()
			pats := []string{}
			lets := []string{}
			for i := range vtypes {
				tv := g.target(s.Lhs[i], define, vtypes[i], scO)
				tv.state = "ok"
				if tv.typ == vtypes[i] || tv.lean == "_" {
					pats = append(pats, tv.lean)
				} else {
					raw := tv.lean + "_v"
					pats = append(pats, raw)
					lets = append(lets, "let "+tv.lean+" := "+g.conv(raw, vtypes[i], tv.typ))
				}
			}
			eo := g.target(s.Lhs[len(s.Lhs)-1], define, "error", scO)
			eo.state = "nilerr"
			pat := pats[0]
			if len(pats) > 1 {
				pat = "(" + strings.Join(pats, ", ") + ")"
			}
			g.line(ind, "| .ok "+pat+" =>")
			for _, l := range lets {
				g.line(ind+1, l)
			}
			k(ind+1, scO)
			return
		}
	}
	if len(s.Lhs) == 1 && len(s.Rhs) == 1 {
		/* out[i] = v inside a goroutine of the fan-out */
		if ix, ok := s.Lhs[0].(*ast.IndexExpr); ok {
			if g.mode == "cell" && exprString(ix.X) == g.cellVar && exprString(ix.Index) == g.cellIdx && !define {
				if sc.cellSet {
					g.line(ind, g.fail("%s[%s] is written twice on one path", g.cellVar, g.cellIdx))
					return
				}
				t, typ := g.expr(s.Rhs[0], sc)
				sc.cell = g.conv(t, typ, "Tangible")
				sc.cellSet = true
				ind = g.flush(ind)
				k(ind, sc)
				return
			}
			g.line(ind, g.fail("write to %s", exprString(ix)))
			return
		}
		t, typ := g.expr(s.Rhs[0], sc)
		tv := g.target(s.Lhs[0], define, typ, sc)
		ind = g.flush(ind)
		if tv.lean != "_" {
			g.line(ind, "let "+tv.lean+" := "+g.conv(t, typ, tv.typ))
		}
		tv.state = "ok"
		k(ind, sc)
		return
	}
	g.line(ind, g.fail("assignment %s", exprString(s.Lhs[0])))
}

func (g *lf) ret(ind int, s *ast.ReturnStmt, sc *lfScope) {
	switch g.mode {
	case "value":
		if len(s.Results) == 1 {
			t, typ := g.expr(s.Results[0], sc)
			t = g.conv(t, typ, g.retType)
			ind = g.flush(ind)
			g.line(ind, g.result(t))
			return
		}
	case "loop":
		if len(s.Results) == 2 && lfIsNil(s.Results[0]) {
			t := g.errExpr(s.Results[1], sc)
			ind = g.flush(ind)
			g.line(ind, g.result("some "+t))
			return
		}
	case "gate":
		if len(s.Results) == 2 && lfIsNil(s.Results[0]) {
			t := g.errExpr(s.Results[1], sc)
			ind = g.flush(ind)
			g.line(ind, ".error "+paren14(t))
			return
		}
	}
	g.line(ind, g.fail("return of %d values here", len(s.Results)))
}

func (g *lf) stmt(ind int, st ast.Stmt, sc *lfScope, k lfK) {
	switch s := st.(type) {
	case *ast.ReturnStmt:
		g.ret(ind, s, sc)
	case *ast.AssignStmt:
		g.assign(ind, s, sc, k)
	case *ast.DeclStmt:
		gd, ok := s.Decl.(*ast.GenDecl)
		if !ok || gd.Tok != token.VAR {
			g.line(ind, g.fail("declaration"))
			return
		}
		for _, spec := range gd.Specs {
			vs := spec.(*ast.ValueSpec)
			if len(vs.Values) != 0 {
				g.line(ind, g.fail("var with a value"))
				return
			}
			t := typeStr(vs.Type)
			for _, n := range vs.Names {
				switch {
				case t == "sync.WaitGroup":
					g.line(ind, g.fail("a sync.WaitGroup outside the fan-out shape"))
					return
				case t == "any" && g.retType == "pub.Any":
					g.declare(sc, n.Name, "pub.Any", "unset")
				case t == "error" || t == "Tangible":
					g.declare(sc, n.Name, t, "unset")
				default:
					g.line(ind, g.fail("var %s %s", n.Name, t))
					return
				}
			}
		}
		k(ind, sc)
	case *ast.BlockStmt:
		g.block(ind, s, sc, k)
	case *ast.BranchStmt:
		if s.Tok == token.CONTINUE && g.mode == "loop" && s.Label == nil {
			g.line(ind, g.loopCall)
			return
		}
		g.line(ind, g.fail("%s", s.Tok))
	case *ast.IfStmt:
		g.ifStmt(ind, s, sc, k)
	default:
		g.line(ind, g.fail("statement %T", st))
	}
}

func (g *lf) ifStmt(ind int, s *ast.IfStmt, sc *lfScope, k lfK) {
	elseK := func(ind int, sc2 *lfScope) {
		switch e := s.Else.(type) {
		case nil:
			k(ind, sc2)
		case *ast.BlockStmt:
			g.block(ind, e, sc2, k)
		case *ast.IfStmt:
			g.ifStmt(ind, e, sc2, k)
		default:
			g.line(ind, g.fail("else %T", s.Else))
		}
	}
	if s.Init == nil {
		thenK := func(ind int, sc2 *lfScope) { g.block(ind, s.Body, sc2, k) }
		g.branch(ind, s.Cond, sc, thenK, elseK)
		return
	}
	as, ok := s.Init.(*ast.AssignStmt)
	if !ok || len(as.Rhs) != 1 {
		g.line(ind, g.fail("if with this initialiser"))
		return
	}
	/* v, ok := x.(T); ok */
	if ta, isTA := as.Rhs[0].(*ast.TypeAssertExpr); isTA {
		if len(as.Lhs) != 2 || as.Tok != token.DEFINE || exprString(s.Cond) != exprString(as.Lhs[1]) {
			g.line(ind, g.fail("type assertion whose outcome is not the condition"))
			return
		}
		x, xt := g.expr(ta.X, sc)
		T := typeStr(ta.Type)
		ind = g.flush(ind)
		inner := sc.clone()
		inner.depth = sc.depth + 1
		v := g.declare(inner, exprString(as.Lhs[0]), T, "ok")
		okv := g.declare(inner, exprString(as.Lhs[1]), "bool", "ok")
		_ = okv
		back := func(ind int, end *lfScope) { k(ind, g.leave(sc, end)) }
		thenK := func(ind int, sc2 *lfScope) {
			g.stmts(ind, s.Body.List, sc2, back)
		}
		outK := func(ind int) {
			sc2 := sc.clone()
			for kk, n := range inner.names {
				sc2.names[kk] = n
			}
			elseK(ind, sc2)
		}
		switch {
		case xt == "any" && T == "map[string]any":
			g.line(ind, "match Go.assert_map "+paren14(x)+" with")
			g.line(ind, "| ("+v.lean+", true) => (")
			thenK(ind+1, inner.clone())
			g.line(ind+1, ")")
			g.line(ind, "| (_, false) =>")
			outK(ind + 1)
		case xt == "Tangible" && strings.HasPrefix(T, "*") && g.implements(T[1:], "Tangible"):
			g.line(ind, "match "+x+" with")
			g.line(ind, "| ."+lfCtor(T[1:])+" "+v.lean+" => (")
			thenK(ind+1, inner.clone())
			g.line(ind+1, ")")
			g.line(ind, "| _ =>")
			outK(ind + 1)
		case xt == "pub.Any" && T == "Tangible":
			g.line(ind, "match Any.asTangible "+paren14(x)+" with")
			g.line(ind, "| some "+v.lean+" => (")
			thenK(ind+1, inner.clone())
			g.line(ind+1, ")")
			g.line(ind, "| none =>")
			outK(ind + 1)
		default:
			g.line(ind, g.fail("assertion of a %s to %s", xt, T))
		}
		return
	}
	/* if v, err = f(…); cond */
	inner := sc.clone()
	inner.depth = sc.depth + 1
	back := func(ind int, end *lfScope) { k(ind, g.leave(sc, end)) }
	rest := &ast.IfStmt{Cond: s.Cond, Body: s.Body, Else: s.Else}
	g.assign(ind, as, inner, func(ind int, sc2 *lfScope) { g.ifStmt(ind, rest, sc2, back) })
}

/* ---------- the fan-out ---------- */

func (g *lf) fanoutShape(list []ast.Stmt, sc *lfScope) (int, bool) {
	as, ok := list[0].(*ast.AssignStmt)
	if !ok || as.Tok != token.DEFINE || len(as.Lhs) != 1 || len(as.Rhs) != 1 {
		return 0, false
	}
	call, ok := as.Rhs[0].(*ast.CallExpr)
	if !ok || exprString(call.Fun) != "make" {
		return 0, false
	}
	return 4, true
}

func (g *lf) fanout(ind int, list []ast.Stmt, sc *lfScope, k lfK) {
	bad := func(why string) { g.line(ind, g.fail("fan-out: %s", why)) }
	if len(list) < 4 {
		bad("the statements after make(…) are not `var wg sync.WaitGroup`, the loop and wg.Wait()")
		return
	}
	as := list[0].(*ast.AssignStmt)
	mk := as.Rhs[0].(*ast.CallExpr)
	out := exprString(as.Lhs[0])
	if len(mk.Args) != 2 || typeStr(mk.Args[0]) != "[]Tangible" {
		bad("make of something other than a []Tangible with a length")
		return
	}
	lenCall, ok := mk.Args[1].(*ast.CallExpr)
	if !ok || exprString(lenCall.Fun) != "len" || len(lenCall.Args) != 1 {
		bad("the length of the slice is not len(…)")
		return
	}
	xs := exprString(lenCall.Args[0])
	xv, ok := g.lookup(sc, xs)
	if !ok || !strings.HasPrefix(xv.typ, "[]") || xv.state != "ok" {
		bad("the length is not that of a slice variable")
		return
	}
	wgName := ""
	if ds, ok := list[1].(*ast.DeclStmt); ok {
		if gd, ok := ds.Decl.(*ast.GenDecl); ok && gd.Tok == token.VAR && len(gd.Specs) == 1 {
			vs := gd.Specs[0].(*ast.ValueSpec)
			if len(vs.Names) == 1 && typeStr(vs.Type) == "sync.WaitGroup" && len(vs.Values) == 0 {
				wgName = vs.Names[0].Name
			}
		}
	}
	if wgName == "" {
		bad("no `var wg sync.WaitGroup` after make(…)")
		return
	}
	rs, ok := list[2].(*ast.RangeStmt)
	if !ok || rs.Tok != token.DEFINE || rs.Value != nil || rs.Key == nil || exprString(rs.X) != xs {
		bad("the loop is not `for i := range " + xs + "`")
		return
	}
	idx := exprString(rs.Key)
	if es, ok := list[3].(*ast.ExprStmt); !ok || exprString(es.X) != wgName+".Wait()" {
		bad("the loop is not followed by " + wgName + ".Wait()")
		return
	}
	body := rs.Body.List
	if len(body) < 2 {
		bad("the loop body is not `wg.Add(1); i := i; go func() { … }()`")
		return
	}
	if es, ok := body[0].(*ast.ExprStmt); !ok || exprString(es.X) != wgName+".Add()" || len(es.X.(*ast.CallExpr).Args) != 1 || exprString(es.X.(*ast.CallExpr).Args[0]) != "1" {
		bad("the loop body does not start with " + wgName + ".Add(1)")
		return
	}
	cp, ok := body[1].(*ast.AssignStmt)
	if !ok || cp.Tok != token.DEFINE || len(cp.Lhs) != 1 || len(cp.Rhs) != 1 || exprString(cp.Lhs[0]) != idx || exprString(cp.Rhs[0]) != idx {
		bad("no per-iteration copy `" + idx + " := " + idx + "` before the go statement: the goroutines would share the loop variable")
		return
	}
	if len(body) != 3 {
		bad("the loop body is not `wg.Add(1); i := i; go func() { … }()`")
		return
	}
	gs, ok := body[2].(*ast.GoStmt)
	if !ok || len(gs.Call.Args) != 0 {
		bad("the loop body does not end in `go func() { … }()`")
		return
	}
	fl, ok := gs.Call.Fun.(*ast.FuncLit)
	if !ok || len(fl.Type.Params.List) != 0 || fl.Type.Results != nil || len(fl.Body.List) == 0 {
		bad("the goroutine is not a parameterless function literal")
		return
	}
	last := fl.Body.List[len(fl.Body.List)-1]
	if es, ok := last.(*ast.ExprStmt); !ok || exprString(es.X) != wgName+".Done()" {
		bad("the goroutine does not end with " + wgName + ".Done()")
		return
	}
	g.line(ind, "-- "+out+" := make([]Tangible, len("+xs+")); var "+wgName+" sync.WaitGroup; for "+idx+" := range "+xs+" { "+wgName+".Add(1); "+idx+" := "+idx+"; go func() { …; "+wgName+".Done() }() }; "+wgName+".Wait()")
	ov := g.declare(sc, out, "[]Tangible", "ok")
	inner := sc.clone()
	inner.depth = sc.depth + 2
	iv := g.declare(inner, idx, "int", "ok")
	saveMode, saveHoists := g.mode, g.hoists
	g.mode, g.cellVar, g.cellIdx, g.hoists, g.goroutine, g.goDepth = "cell", out, idx, nil, true, inner.depth
	g.line(ind, "match Go.fanout "+xv.lean+" (fun "+iv.lean+" =>")
	g.stmts(ind+2, fl.Body.List[:len(fl.Body.List)-1], inner, func(ind int, end *lfScope) {
		if !end.cellSet {
			g.line(ind, g.fail("fan-out: a path through the goroutine does not write %s[%s]", out, idx))
			return
		}
		g.line(ind, ".ok "+paren14(end.cell))
	})
	g.line(ind+2, ") with")
	g.mode, g.hoists, g.goroutine = saveMode, saveHoists, false
	g.line(ind, "| .error p_ => .error p_")
	g.line(ind, "| .ok "+ov.lean+" =>")
	k(ind+1, sc)
}

/* ---------- functions ---------- */

func lfCanPanic(n ast.Node, panicking map[string]bool) bool {
	found := false
	ast.Inspect(n, func(m ast.Node) bool {
		switch x := m.(type) {
		case *ast.IndexExpr:
			found = true
		case *ast.SelectorExpr:
			if x.Sel.Name == "String" || x.Sel.Name == "Host" || x.Sel.Name == "Hostname" || x.Sel.Name == "Port" || x.Sel.Name == "Path" || x.Sel.Name == "Scheme" {
				found = true
			}
		case *ast.CallExpr:
			if id, ok := x.Fun.(*ast.Ident); ok && panicking[id.Name] {
				found = true
			}
		}
		return true
	})
	return found
}

type lfParam struct{ name, typ string }

func (g *lf) paramsOf(ft *ast.FuncType) []lfParam {
	out := []lfParam{}
	for _, f := range ft.Params.List {
		for _, n := range f.Names {
			out = append(out, lfParam{n.Name, typeStr(f.Type)})
		}
	}
	return out
}

/* emits one definition; `body` writes the term into g.b */
func (g *lf) define(out *strings.Builder, name, doc string, leading []lfParam, params []lfParam, resLean string, panics bool, matchArgs string,
	body func(sc *lfScope)) *lfDone {
	g.cur = name
	g.b = &strings.Builder{}
	g.ext, g.usesL, g.panics, g.hoists, g.fresh = nil, false, panics, nil, 0
	g.consVar, g.consType = "", ""
	sc := newLfScope()
	for _, p := range append(append([]lfParam{}, leading...), params...) {
		g.declare(sc, p.name, p.typ, "ok")
	}
	body(sc)
	d := &lfDone{ext: append([]string{}, g.ext...), usesL: g.usesL, panics: panics}
	for _, p := range params {
		d.params = append(d.params, p.typ)
	}
	out.WriteString("/-- " + doc + " -/\n")
	out.WriteString("def " + name)
	if g.usesL {
		out.WriteString(" (L : Obj.Libs Time Url)")
	}
	for _, e := range g.ext {
		out.WriteString(" (" + e + " : " + g.extSig[e] + ")")
	}
	for _, p := range append(append([]lfParam{}, leading...), params...) {
		out.WriteString(" (" + sc.vars[p.name].lean + " : " + g.leanType(p.typ) + ")")
	}
	if panics {
		resLean = "Except Panic " + paren14(resLean)
	}
	out.WriteString(" : " + matchArgs + resLean + " :=\n")
	out.WriteString(g.b.String())
	out.WriteString("\n")
	return d
}

func (g *lf) endOfBody(ind int, sc *lfScope) {
	g.line(ind, g.fail("the end of the body is reached without a return"))
}

/* free identifiers of a function literal that name variables of the enclosing function */
func (g *lf) captured(fl *ast.FuncLit, encl *ast.FuncDecl) []lfParam {
	enclParams := map[string]string{}
	for _, p := range g.paramsOf(encl.Type) {
		enclParams[p.name] = p.typ
	}
	enclLocals := map[string]bool{}
	assigned := map[string]bool{}
	ast.Inspect(encl.Body, func(n ast.Node) bool {
		if n == ast.Node(fl) {
			return false
		}
		switch x := n.(type) {
		case *ast.AssignStmt:
			for _, l := range x.Lhs {
				if id, ok := l.(*ast.Ident); ok {
					if x.Tok == token.DEFINE {
						enclLocals[id.Name] = true
					}
					assigned[id.Name] = true
				}
			}
		case *ast.ValueSpec:
			for _, n := range x.Names {
				enclLocals[n.Name] = true
			}
		case *ast.UnaryExpr:
			if x.Op == token.AND {
				if id, ok := x.X.(*ast.Ident); ok {
					assigned[id.Name] = true
				}
			}
		case *ast.IncDecStmt:
			if id, ok := x.X.(*ast.Ident); ok {
				assigned[id.Name] = true
			}
		}
		return true
	})
	own := map[string]bool{}
	for _, p := range g.paramsOf(fl.Type) {
		own[p.name] = true
	}
	ast.Inspect(fl.Body, func(n ast.Node) bool {
		switch x := n.(type) {
		case *ast.AssignStmt:
			if x.Tok == token.DEFINE {
				for _, l := range x.Lhs {
					if id, ok := l.(*ast.Ident); ok {
						own[id.Name] = true
					}
				}
			} else {
				for _, l := range x.Lhs {
					if id, ok := l.(*ast.Ident); ok && !own[id.Name] {
						assigned[id.Name] = true
					}
				}
			}
		case *ast.ValueSpec:
			for _, n := range x.Names {
				own[n.Name] = true
			}
		}
		return true
	})
	seen := map[string]bool{}
	out := []lfParam{}
	var visit func(n ast.Node) bool
	visit = func(n ast.Node) bool {
		if se, ok := n.(*ast.SelectorExpr); ok {
			/* only the root of a selector chain is a variable */
			ast.Inspect(se.X, visit)
			return false
		}
		if kv, ok := n.(*ast.KeyValueExpr); ok {
			ast.Inspect(kv.Value, visit)
			return false
		}
		id, ok := n.(*ast.Ident)
		if !ok || own[id.Name] || seen[id.Name] {
			return true
		}
		if t, isParam := enclParams[id.Name]; isParam {
			seen[id.Name] = true
			if assigned[id.Name] {
				g.fail("the closure captures %s, which the enclosing function assigns", id.Name)
			}
			out = append(out, lfParam{id.Name, t})
		} else if enclLocals[id.Name] {
			seen[id.Name] = true
			g.fail("the closure captures the local variable %s of %s", id.Name, encl.Name.Name)
		}
		return true
	}
	ast.Inspect(fl.Body, visit)
	return out
}

func (g *lf) closure(out *strings.Builder, name, doc string, fl *ast.FuncLit, encl *ast.FuncDecl) {
	g.cur = name
	caps := g.captured(fl, encl)
	if fl.Type.Results == nil || len(fl.Type.Results.List) != 1 || typeStr(fl.Type.Results.List[0].Type) != "Tangible" {
		out.WriteString("def " + name + " := " + g.fail("the closure does not return a Tangible") + "\n\n")
		return
	}
	panics := lfCanPanic(fl.Body, nil)
	g.mode, g.retType = "value", "Tangible"
	g.done[name] = g.define(out, name, doc, caps, g.paramsOf(fl.Type), "Tangible", panics, "", func(sc *lfScope) {
		g.stmts(2, fl.Body.List, sc, g.endOfBody)
	})
}

func (g *lf) function(out *strings.Builder, name string, retType string) {
	fd, ok := g.funcs[name]
	g.cur = name
	if !ok {
		out.WriteString("def " + name + " := " + g.fail("func %s not found", name) + "\n\n")
		return
	}
	_, rs := g.sigOf(fd)
	if len(rs) != 1 || (rs[0] != retType && !(rs[0] == "any" && retType == "pub.Any")) {
		out.WriteString("def " + name + " := " + g.fail("func %s does not return one %s", name, retType) + "\n\n")
		return
	}
	panicking := map[string]bool{}
	for n, d := range g.done {
		if d.panics {
			panicking[n] = true
		}
	}
	panics := lfCanPanic(fd.Body, panicking)
	g.mode, g.retType = "value", retType
	d := g.define(out, name, "`func "+name+"`", nil, g.paramsOf(fd.Type), g.leanType(retType), panics, "", func(sc *lfScope) {
		g.stmts(2, fd.Body.List, sc, g.endOfBody)
	})
	d.result = retType
	g.done[name] = d
}

func (g *lf) accessor(out *strings.Builder, structName, method string) {
	name := structName + "." + method
	fd, ok := g.methods[name]
	g.cur = name
	if !ok || fd.Recv == nil || len(fd.Recv.List) != 1 || len(fd.Recv.List[0].Names) != 1 || len(fd.Type.Params.List) != 0 {
		out.WriteString("def " + name + " := " + g.fail("method %s not found as a parameterless method", name) + "\n\n")
		return
	}
	_, rs := g.sigOf(fd)
	if len(rs) != 1 || rs[0] != "*url.URL" {
		out.WriteString("def " + name + " := " + g.fail("method %s does not return a *url.URL", name) + "\n\n")
		return
	}
	recv := lfParam{fd.Recv.List[0].Names[0].Name, typeStr(fd.Recv.List[0].Type)}
	if recv.typ != "*"+structName {
		out.WriteString("def " + name + " := " + g.fail("receiver of %s is a %s", name, recv.typ) + "\n\n")
		return
	}
	g.mode, g.retType = "value", "*url.URL"
	d := g.define(out, name, "`func ("+recv.name+" "+recv.typ+") "+method+"`", nil, []lfParam{recv}, "Option Pub.U", false, "", func(sc *lfScope) {
		g.stmts(2, fd.Body.List, sc, g.endOfBody)
	})
	d.result = "*url.URL"
	g.done[name] = d
}

/* the head of a constructor, up to and including the test of the `type` against its list */
func (g *lf) gate(out *strings.Builder, name string) {
	fd, ok := g.funcs[name]
	g.cur = name + "_kind"
	if !ok {
		out.WriteString("def " + name + "_kind := " + g.fail("func %s not found", name) + "\n\n")
		return
	}
	_, rs := g.sigOf(fd)
	n := -1
	for i, st := range fd.Body.List {
		if is, ok := st.(*ast.IfStmt); ok && strings.Contains(exprString(is.Cond), "slices.Contains") {
			n = i
			break
		}
	}
	if n < 0 || len(rs) != 2 || rs[1] != "error" || !strings.HasPrefix(rs[0], "*") {
		out.WriteString("def " + name + "_kind := " + g.fail("no test of the type with slices.Contains in %s", name) + "\n\n")
		return
	}
	params := []lfParam{}
	for _, p := range g.paramsOf(fd.Type) {
		if !strings.HasPrefix(p.typ, "func(") {
			params = append(params, p)
		}
	}
	g.mode, g.retType = "gate", ""
	g.define(out, name+"_kind", "the head of `func "+name+"`, up to and including the test of the `type` against the list of its kinds: the error returned there, or the kind with which the construction goes on",
		nil, params, "Except Go.Error Str", false, "", func(sc *lfScope) {
			g.stmts(2, fd.Body.List[:n+1], sc, func(ind int, end *lfScope) {
				if g.consVar == "" {
					g.line(ind, g.fail("no struct under construction"))
					return
				}
				v, ok := end.vars[g.consVar+".kind"]
				if !ok || v.state != "ok" || v.typ != "string" {
					g.line(ind, g.fail("%s.kind is not set by the head", g.consVar))
					return
				}
				if rs[0] != "*"+g.consType {
					g.line(ind, g.fail("%s builds a %s and returns a %s", name, g.consType, rs[0]))
					return
				}
				g.line(ind, "-- the construction goes on (outside the translated head)")
				g.line(ind, ".ok "+v.lean)
			})
		})
}

/* the loop over p.creators and what follows it */
func (g *lf) creatorsLoop(out *strings.Builder, enclName string) {
	name := enclName + "_creators"
	g.cur = name
	fd, ok := g.funcs[enclName]
	if !ok {
		out.WriteString("def " + name + " := " + g.fail("func %s not found", enclName) + "\n\n")
		return
	}
	var loop *ast.RangeStmt
	at := -1
	for i, st := range fd.Body.List {
		if rs, ok := st.(*ast.RangeStmt); ok && strings.HasSuffix(exprString(rs.X), ".creators") {
			if loop != nil {
				out.WriteString("def " + name + " := " + g.fail("two loops over the creators") + "\n\n")
				return
			}
			loop, at = rs, i
		}
	}
	recvName := ""
	if loop != nil {
		recvName = strings.TrimSuffix(exprString(loop.X), ".creators")
	}
	okShape := loop != nil && loop.Tok == token.DEFINE && loop.Key != nil && exprString(loop.Key) == "_" && loop.Value != nil &&
		at == len(fd.Body.List)-2 && g.structFieldType("Post", "creators") == "[]Tangible"
	if okShape {
		r, isRet := fd.Body.List[at+1].(*ast.ReturnStmt)
		okShape = isRet && len(r.Results) == 2 && exprString(r.Results[0]) == recvName && lfIsNil(r.Results[1])
	}
	if okShape {
		/* the receiver is the struct under construction: `p := &Post{}` */
		okShape = false
		for _, st := range fd.Body.List {
			if as, ok := st.(*ast.AssignStmt); ok && as.Tok == token.DEFINE && len(as.Lhs) == 1 && exprString(as.Lhs[0]) == recvName {
				if u, ok := as.Rhs[0].(*ast.UnaryExpr); ok && u.Op == token.AND {
					if cl, ok := u.X.(*ast.CompositeLit); ok && typeStr(cl.Type) == "Post" && len(cl.Elts) == 0 {
						okShape = true
					}
				}
			}
		}
	}
	if !okShape {
		out.WriteString("def " + name + " := " + g.fail("the loop `for _, x := range p.creators { … }` followed by `return p, nil` was not found at the end of %s", enclName) + "\n\n")
		return
	}
	/* where the list comes from: exactly one `p.creators = getActors(o, "key", p.id)` */
	ps := g.paramsOf(fd.Type)
	keys := []string{}
	ast.Inspect(fd.Body, func(n ast.Node) bool {
		as, ok := n.(*ast.AssignStmt)
		if !ok {
			return true
		}
		for i, l := range as.Lhs {
			if exprString(l) != recvName+".creators" {
				continue
			}
			key := ""
			if call, ok := as.Rhs[0].(*ast.CallExpr); ok && i == 0 && len(as.Lhs) == 1 && as.Tok == token.ASSIGN &&
				exprString(call.Fun) == "getActors" && len(call.Args) == 3 && len(ps) == 2 && exprString(call.Args[0]) == ps[0].name &&
				exprString(call.Args[2]) == recvName+".id" {
				if s, isLit := g.strLit(call.Args[1]); isLit {
					key = s
				}
			}
			keys = append(keys, key)
		}
		return true
	})
	okSrc := false
	for _, st := range fd.Body.List {
		if a2, ok := st.(*ast.AssignStmt); ok && a2.Tok == token.ASSIGN && len(a2.Lhs) == 1 && len(ps) == 2 && exprString(a2.Lhs[0]) == recvName+".id" && exprString(a2.Rhs[0]) == ps[1].name {
			okSrc = true
		}
	}
	if len(keys) != 1 || keys[0] == "" || !okSrc {
		out.WriteString("def " + enclName + "_creatorsKey := " + g.fail("%s.creators is not set exactly once, by getActors(%s, \"key\", %s.id) with %s.id the parameter", recvName, "o", recvName, recvName) + "\n\n")
	} else {
		out.WriteString("/-- the key of the list `" + enclName + "` reads the creators from: `" + recvName + ".creators = getActors(" + ps[0].name + ", " + leanStr(keys[0]) + ", " + recvName + ".id)` -/\n")
		out.WriteString("def " + enclName + "_creatorsKey : Str := Go.str " + leanStr(keys[0]) + "\n\n")
	}
	/* variables of the enclosing function the body reads: only unassigned parameters */
	fl := &ast.FuncLit{Type: &ast.FuncType{Params: &ast.FieldList{}}, Body: loop.Body}
	caps := g.captured(fl, fd)
	elem := exprString(loop.Value)
	g.mode, g.retType = "loop", ""
	panics := lfCanPanic(loop.Body, nil)
	g.cur = name
	g.b = &strings.Builder{}
	g.ext, g.usesL, g.panics, g.hoists, g.fresh = nil, false, panics, nil, 0
	g.consVar, g.consType = "", ""
	sc := newLfScope()
	for _, p := range caps {
		g.declare(sc, p.name, p.typ, "ok")
	}
	capNames := []string{}
	for _, p := range caps {
		capNames = append(capNames, sc.vars[p.name].lean)
	}
	g.loopCall = strings.TrimSpace(name + " " + strings.Join(capNames, " ") + " rest_")
	ev := g.declare(sc, elem, "Tangible", "ok")
	inner := sc.clone()
	inner.depth = 2
	g.stmts(2, loop.Body.List, inner, func(ind int, end *lfScope) { g.line(ind, g.loopCall) })
	res := "Option Go.Error"
	if panics {
		res = "Except Panic (Option Go.Error)"
	}
	out.WriteString("/-- the loop `for _, " + elem + " := range " + exprString(loop.X) + "` at the end of `func " + enclName + "`, over the elements still to visit: the error it returns (`return nil, err`), or none when it runs to its end (`return " + recvName + ", nil` follows) -/\n")
	out.WriteString("def " + name)
	for _, p := range caps {
		out.WriteString(" (" + sc.vars[p.name].lean + " : " + g.leanType(p.typ) + ")")
	}
	out.WriteString(" : List Tangible → " + res + "\n")
	out.WriteString("  | [] => " + g.result("none") + "\n")
	out.WriteString("  | " + ev.lean + " :: rest_ =>\n")
	out.WriteString(g.b.String())
	out.WriteString("\n")
}

/* the call getCollection(o, "key", recv.id, F) in a constructor */
type lfCollCall struct {
	key string
	fn  ast.Expr
	lhs string
}

func (g *lf) collectionCalls(fd *ast.FuncDecl) []lfCollCall {
	out := []lfCollCall{}
	ps := g.paramsOf(fd.Type)
	ast.Inspect(fd.Body, func(n ast.Node) bool {
		as, ok := n.(*ast.AssignStmt)
		if !ok || len(as.Rhs) != 1 {
			return true
		}
		call, ok := as.Rhs[0].(*ast.CallExpr)
		if !ok || exprString(call.Fun) != "getCollection" || len(call.Args) != 4 {
			return true
		}
		key, isLit := g.strLit(call.Args[1])
		if !isLit || len(ps) != 2 || exprString(call.Args[0]) != ps[0].name {
			g.fail("getCollection is not called with the object and a literal key")
			return true
		}
		/* the source is recv.id, which was set to the parameter id */
		src := exprString(call.Args[2])
		okSrc := false
		for _, st := range fd.Body.List {
			if a2, ok := st.(*ast.AssignStmt); ok && a2.Tok == token.ASSIGN && len(a2.Lhs) == 1 && exprString(a2.Lhs[0]) == src && exprString(a2.Rhs[0]) == ps[1].name {
				okSrc = true
			}
		}
		if !okSrc {
			g.fail("the source of getCollection(…, %q, …) is %s, which is not set to the parameter %s", key, src, ps[1].name)
		}
		lhs := []string{}
		for _, l := range as.Lhs {
			lhs = append(lhs, exprString(l))
		}
		out = append(out, lfCollCall{key, call.Args[3], strings.Join(lhs, ", ")})
		return true
	})
	return out
}

func translateListing(root string) (string, []string) {
	g := &lf{funcs: map[string]*ast.FuncDecl{}, methods: map[string]*ast.FuncDecl{}, structs: map[string]*ast.StructType{},
		ifaces: map[string]*ast.InterfaceType{}, pkgVars: map[string]ast.Expr{}, extSig: map[string]string{}, done: map[string]*lfDone{},
		anyCtors: map[string]bool{}, b: &strings.Builder{}}
	entries, err := os.ReadDir(filepath.Join(root, "pub"))
	if err != nil {
		return "def listing := sorry_untranslatable\n", []string{"pub: " + err.Error()}
	}
	names := []string{}
	for _, e := range entries {
		if strings.HasSuffix(e.Name(), ".go") && !strings.HasSuffix(e.Name(), "_test.go") && !strings.HasSuffix(e.Name(), "verif_shim.go") {
			names = append(names, e.Name())
		}
	}
	sort.Strings(names)
	structOrder := []string{}
	for _, n := range names {
		f := parseFile(root, filepath.Join("pub", n))
		for _, d := range f.Decls {
			switch x := d.(type) {
			case *ast.FuncDecl:
				if x.Recv == nil {
					g.funcs[x.Name.Name] = x
				} else if len(x.Recv.List) == 1 {
					g.methods[strings.TrimPrefix(typeStr(x.Recv.List[0].Type), "*")+"."+x.Name.Name] = x
				}
			case *ast.GenDecl:
				for _, spec := range x.Specs {
					switch s := spec.(type) {
					case *ast.TypeSpec:
						switch t := s.Type.(type) {
						case *ast.StructType:
							g.structs[s.Name.Name] = t
							structOrder = append(structOrder, s.Name.Name)
						case *ast.InterfaceType:
							g.ifaces[s.Name.Name] = t
						}
					case *ast.ValueSpec:
						if x.Tok == token.VAR {
							for i, n := range s.Names {
								if i < len(s.Values) {
									g.pkgVars[n.Name] = s.Values[i]
								}
							}
						}
					}
				}
			}
		}
	}
	sort.Strings(structOrder)
	for _, s := range structOrder {
		if g.implements(s, "Tangible") {
			g.impls = append(g.impls, s)
		}
	}

	var out strings.Builder
	out.WriteString("set_option linter.unusedVariables false\n\nnamespace GenListing\n\nvariable {Time Url : Type}\n\n")

	/* Failure */
	g.cur = "Failure"
	out.WriteString("/-- `type Failure struct` -/\nstructure Failure where\n")
	if st, ok := g.structs["Failure"]; ok && len(st.Fields.List) == 1 && len(st.Fields.List[0].Names) == 1 && typeStr(st.Fields.List[0].Type) == "error" {
		out.WriteString("  " + st.Fields.List[0].Names[0].Name + " : Go.Error\n\n")
	} else {
		out.WriteString("  unknown : " + g.fail("type Failure is not a struct of one error") + "\n\n")
	}
	/* Tangible */
	g.cur = "Tangible"
	out.WriteString("/-- `type Tangible interface`: a value is one of the struct types of the package that have all its methods -/\ninductive Tangible where\n")
	if len(g.impls) == 0 {
		out.WriteString("  | unknown (v : " + g.fail("no type implements Tangible") + ")\n")
	}
	for _, s := range g.impls {
		out.WriteString("  | " + lfCtor(s) + " (v : " + g.leanType("*"+s) + ")\n")
	}
	out.WriteString("\n")

	var defs strings.Builder
	g.accessor(&defs, "Actor", "Identifier")
	g.accessor(&defs, "Activity", "ActorIdentifier")
	g.accessor(&defs, "Post", "ParentIdentifier")

	/* the outbox closure */
	g.cur = "NewActorFromObject"
	if fd, ok := g.funcs["NewActorFromObject"]; ok {
		calls := g.collectionCalls(fd)
		if len(calls) == 1 {
			if fl, ok := calls[0].fn.(*ast.FuncLit); ok {
				defs.WriteString("/-- the key of the collection `NewActorFromObject` lists with the closure below (stored in " + calls[0].lhs + ") -/\n")
				defs.WriteString("def NewActorFromObject_outboxKey : Str := Go.str " + leanStr(calls[0].key) + "\n\n")
				g.closure(&defs, "NewActorFromObject_outbox", "the function literal `NewActorFromObject` passes to `getCollection(o, "+leanStr(calls[0].key)+", a.id, …)`; `id` is the parameter of `NewActorFromObject`", fl, fd)
			} else {
				defs.WriteString("def NewActorFromObject_outbox := " + g.fail("the constructor handed to getCollection is not a function literal") + "\n\n")
			}
		} else {
			defs.WriteString("def NewActorFromObject_outbox := " + g.fail("%d calls of getCollection in NewActorFromObject", len(calls)) + "\n\n")
		}
	} else {
		defs.WriteString("def NewActorFromObject_outbox := " + g.fail("func NewActorFromObject not found") + "\n\n")
	}

	/* the reply closure */
	g.cur = "NewPostFromObject"
	if fd, ok := g.funcs["NewPostFromObject"]; ok {
		calls := g.collectionCalls(fd)
		ident := ""
		keys := []string{}
		same := len(calls) > 0
		for _, c := range calls {
			id, isId := c.fn.(*ast.Ident)
			if !isId || (ident != "" && id.Name != ident) {
				same = false
				break
			}
			ident = id.Name
			keys = append(keys, "Go.str "+leanStr(c.key))
		}
		var fl *ast.FuncLit
		if same {
			n := 0
			ast.Inspect(fd.Body, func(m ast.Node) bool {
				if as, ok := m.(*ast.AssignStmt); ok {
					for i, l := range as.Lhs {
						if exprString(l) == ident {
							n++
							if f, ok := as.Rhs[i].(*ast.FuncLit); ok && as.Tok == token.DEFINE && len(as.Lhs) == 1 {
								fl = f
							}
						}
					}
				}
				return true
			})
			if n != 1 {
				fl = nil
			}
		}
		if fl != nil {
			defs.WriteString("/-- the keys of the collections `NewPostFromObject` lists with `" + ident + "`, in the order they are tried -/\n")
			defs.WriteString("def NewPostFromObject_replyKeys : List Str := [" + strings.Join(keys, ", ") + "]\n\n")
			g.closure(&defs, "NewPostFromObject_"+ident, "the function literal `"+ident+"` that `NewPostFromObject` passes to every `getCollection(o, …, p.id, "+ident+")`; `id` is the parameter of `NewPostFromObject`", fl, fd)
		} else {
			defs.WriteString("def NewPostFromObject_constructComment := " + g.fail("the calls of getCollection in NewPostFromObject do not all pass one identifier bound once to a function literal") + "\n\n")
		}
	} else {
		defs.WriteString("def NewPostFromObject_constructComment := " + g.fail("func NewPostFromObject not found") + "\n\n")
	}

	g.creatorsLoop(&defs, "NewPostFromObject")
	g.function(&defs, "getActors", "[]Tangible")
	g.function(&defs, "getPostOrActor", "Tangible")

	/* New and NewTangible refer to each other through NewCollectionFromObject(o, id, NewTangible): the
	   constructor argument is not part of the model's collection (resultCall checks it is NewTangible) */
	var newDefs strings.Builder
	g.function(&newDefs, "New", "pub.Any")
	g.function(&newDefs, "NewTangible", "Tangible")

	g.cur = "Any"
	out.WriteString("/-- the `any` that `New` returns: the pointer types stored into it -/\ninductive Any where\n")
	ctors := []string{}
	for s := range g.anyCtors {
		ctors = append(ctors, s)
	}
	sort.Strings(ctors)
	if len(ctors) == 0 {
		out.WriteString("  | unknown (v : " + g.fail("nothing is stored into the result of New") + ")\n")
	}
	for _, s := range ctors {
		out.WriteString("  | " + lfCtor(s) + " (v : " + g.leanType("*"+s) + ")\n")
	}
	out.WriteString("\n/-- `v, ok := x.(Tangible)`: the types that have the methods of the interface -/\ndef Any.asTangible : Any → Option Tangible\n")
	for _, s := range ctors {
		if g.implements(s, "Tangible") {
			out.WriteString("  | ." + lfCtor(s) + " v => some (Tangible." + lfCtor(s) + " v)\n")
		} else {
			out.WriteString("  | ." + lfCtor(s) + " _ => none\n")
		}
	}
	out.WriteString("\n")
	out.WriteString(defs.String())
	out.WriteString(newDefs.String())

	var gates strings.Builder
	for _, c := range []string{"NewActorFromObject", "NewPostFromObject", "NewActivityFromObject", "NewCollectionFromObject"} {
		g.gate(&gates, c)
	}
	out.WriteString(gates.String())
	out.WriteString("end GenListing\n")
	return out.String(), g.errs
}
