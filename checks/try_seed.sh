#!/bin/bash
# try_seed.sh <dir with patch.diff + demo> <demo target path in repo> <go test package> <property ids...>
# Applies a seeded change to /repo, confirms the existing suite still passes and the demo fails,
# runs the checks, then restores /repo and confirms the demo passes on the unchanged tree.
set -u
D=$1; DEMO_DST=$2; PKG=$3; shift 3
export GOFLAGS=-mod=mod GOPROXY=off GOSUMDB=off GOTOOLCHAIN=local
# SEED_REPO=<dir>: work on a scratch copy made from /repo instead of on /repo itself (the checks
# then run with VERIF_REPO=<dir>); the copy is removed at the end
R=/repo
if [ -n "${SEED_REPO:-}" ]; then
  R=$SEED_REPO; rm -rf "$R"; mkdir -p "$R"; rsync -a --exclude .git /repo/ "$R"/; (cd "$R" && git init -q . && git add -A >/dev/null 2>&1 && git -c user.email=x -c user.name=x commit -qm base)
  DEMO_DST=${DEMO_DST/#\/repo/$R}
fi
cd $R || exit 2
git diff --quiet || { echo "$R is dirty"; exit 2; }
git apply "$D/patch.diff" || { echo "PATCH DOES NOT APPLY"; exit 2; }
echo "--- build + existing tests with the change"
go build ./... || echo "BUILD FAILS"
if go test -vet=off -count=1 ./... 2>&1 | grep -E "^FAIL\s" | grep -v "servitor/jtp" | grep -q .; then echo "EXISTING TESTS FAIL"; else echo "existing tests pass (jtp network tests aside)"; fi
DEMO_SRC=$(ls $D/*_test.go 2>/dev/null | head -1)
if [ -n "$DEMO_SRC" ]; then
  cp "$DEMO_SRC" "$DEMO_DST"
  echo "--- demo with the change (must fail)"
  timeout 120 go test -vet=off -count=1 $PKG 2>&1 | tail -3
fi
for p in "$@"; do
  echo "--- check $p with the change"
  (cd /verif && VERIF_REPO=$R timeout 1200 ./check $p 2>/dev/null | grep -E "VIOLATION|KNOWN" | head -4; echo "exit=$?")
  (cd /verif && ls replays/$p-seed1-*.json >/dev/null 2>&1 && python3 -c "
import json,glob
for f in sorted(glob.glob('/verif/replays/$p-seed1-*.json'))[:2]:
    e=json.load(open(f)); print('   ', e.get('kind'), e.get('name'), (e.get('what') or '')[:100])")
done
git checkout -- . 
if [ -n "$DEMO_SRC" ]; then
  echo "--- demo without the change (must pass)"
  timeout 120 go test -vet=off -count=1 $PKG 2>&1 | tail -2
  rm -f "$DEMO_DST"
fi
git status --short | head -3
if [ -n "${SEED_REPO:-}" ]; then cd /; rm -rf "$R"; fi
