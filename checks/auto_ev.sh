#!/bin/bash
# auto_ev.sh <seed base dir> <id> <props...>: finds the demo destination in notes.md, runs try_seed
SEEDDIR=$1; id=$2; shift 2
out=$SEEDDIR/$id-out
demo=$(ls $out/*_test.go 2>/dev/null | head -1)
base=$(basename "$demo")
dest=$(grep -ohE "\b(ansi|client|config|feed|gemtext|history|hypertext|jtp|markdown|mime|object|plaintext|pub|splicer|style|ui)/$base" $out/notes.md | head -1)
if [ -z "$dest" ]; then
  pkg=$(grep -m1 -oE "^package [a-z_]+" "$demo" | awk '{print $2}' | sed 's/_test$//')
  dest="$pkg/$base"
  [ "$pkg" = main ] && dest="$base"
fi
dir=$(dirname "$dest")
tests=$(grep -hoE "^func (Test[A-Za-z0-9_]+)" "$demo" | awk '{print $2}' | grep -v "^TestMain$" | paste -sd'|')
echo "=========== $id  (demo -> $dest, tests: $tests)"
cd /verif && SEED_REPO=${SEED_REPO:-} checks/try_seed.sh $out /repo/$dest "./$dir/ -run ^($tests)\$" "$@" 2>&1 | grep -v "^---\|^FAIL$"
