#!/usr/bin/env python3
"""Regenerates MANIFEST.json from checks/propconf.py (so the two never drift)."""
import json, os, sys
sys.path.insert(0, os.path.dirname(os.path.abspath(__file__)))
from propconf import PROPS, MANIFEST_TEXT, NOT_APPLICABLE
root = os.path.dirname(os.path.dirname(os.path.abspath(__file__)))
checks = []
for pid in sorted(PROPS):
    t = MANIFEST_TEXT[pid]
    checks.append({
        "property_id": pid,
        "quick_cmd": "./check %s --tier quick" % pid,
        "thorough_cmd": "./check %s --tier thorough" % pid,
        "evidence_file": "/verif/evidence/%s.json" % pid,
        "replay_cmd_template": "./check %s --replay {path}" % pid,
        "engine": "lean-model+correspondence",
        "level_claimed": {"category": PROPS[pid].get("level", "proof"), "text": t["text"], "design_ref": t["design_ref"]},
        "level_note": t["note"],
        "technique": t["technique"],
    })
m = {
    "version": 1,
    "setup_cmd": "./setup.sh",
    "hooks": {
        "guard": "verif",
        "enable": "go build -tags verif (harness/overlay files carrying //go:build verif are copied onto a scratch copy of /repo's working tree at check time; nothing guarded lives in /repo)",
        "baseline_off_cmd": "cd /repo && GOFLAGS=-mod=mod GOPROXY=off GOSUMDB=off go test -vet=off -count=1 ./...",
        "source_commits": [],
        "add_only": True,
    },
    "engines": [
        {"name": "lean-model+correspondence", "path": "/verif/check",
         "serves_properties": sorted(PROPS),
         "kind_free_text": "Lean 4 theorems about a hand-written executable model (lean/Model, lean/Props), tied to /repo on every run by a differential correspondence check (Go harness overlay vs. compiled Lean driver) and by facts regenerated from the source with a go/ast extractor (lean/Generated)"}
    ],
    "checks": checks,
    "not_applicable": [{"property_id": k, "reason": v} for k, v in sorted(NOT_APPLICABLE.items()) if k not in PROPS],
    "notes": "See DESIGN.md. KNOWN_FINDINGS.json lists recorded findings and fixed defects.",
}
json.dump(m, open(os.path.join(root, "MANIFEST.json"), "w"), indent=1)
print("wrote MANIFEST.json with", len(checks), "checks")
