"""Per-property configuration of ./check: harness groups and sizes per tier, evidence texts."""

LIBS = {
    "regexp": "Go regexp semantics of the `expand` pattern are validated differentially (op expand), not proved",
    "unicode": "unicode.IsSpace / unicode.IsControl are modelled as explicit code-point predicates (compared with Go on all code points in the thorough tier)",
}

PROPS = {
    "C13": {
        "groups": [{"name": "C13", "quick": 6000, "thorough": 200000}],
        "rule": "styled text from a cell grammar (words, runs of all IsSpace kinds, newlines, nested SGR attributes; 1 in 5 a hostile ESC/[/m string) x widths -3..250; "
                "non-trivial = some input line is longer than the width (wrap/dumbwrap/pad actually act) / more lines than the height (snip) / a styled cell is present (expand); distinct by op content",
        "trusted": [LIBS["regexp"], LIBS["unicode"]],
        "assumptions": ["model strings are sequences of Unicode scalar values (valid UTF-8 in Go)",
                        "the width theorems are about canonical styled text (what servitor's own style layer produces); hostile strings are covered by the correspondence check only"],
    },
    "C16": {
        "groups": [{"name": "C16", "quick": 6000, "thorough": 200000}],
        "rule": "prefix/centered/suffix of 0..8 styled lines each x heights 1..16; non-trivial = height exceeds the centred text (buffers are computed); distinct by op content",
        "trusted": [LIBS["regexp"]],
        "assumptions": ["frames are produced only by ui.State.view (generated fact)", "terminal height >= 2 for the status line clause"],
    },
}
