"""Per-property configuration of ./check: harness groups and sizes per tier, evidence texts."""

LIBS = {
    "regexp": "Go regexp semantics of the `expand` pattern are validated differentially (op expand), not proved",
    "unicode": "unicode.IsSpace / unicode.IsControl are modelled as explicit code-point predicates (compared with Go on all code points in the thorough tier)",
}

PROPS = {
    "C01": {
        "timeouts_not_mine": True,
        "lean_modules": ["Props.Clean", "Props.Cells", "Props.Facts19", "Props.C01p"],
        "groups": [{"name": "render", "quick": 2500, "thorough": 60000}, {"name": "C01misc", "quick": 2000, "thorough": 60000},
                   {"name": "C14", "quick": 1500, "thorough": 40000}, {"name": "C06", "quick": 1200, "thorough": 30000, "workers": 12},
                   {"name": "present", "quick": 800, "thorough": 20000, "workers": 12}],
        "rule": "documents from grammars of HTML (inline styles, links, media, blockquotes, lists, headings, pre, hr, unknown tags, character-reference and raw control-character injections), Markdown, gemtext and plain text with URLs x sequences of 1..4 widths (-3..250); "
                "error text quoting hostile status lines / media types / raw control characters through style.Problem; Scrub and SetLength on raw text with C0, DEL, C1, ESC, tabs; style expressions followed by layout pipelines; "
                "the Safe predicate (printable, newline, complete SGR sequences only) is evaluated on every implementation output; non-trivial = the input contains a control character / a link / several widths; distinct by op content",
        "trusted": ["x/net/html and goldmark: the model renders the forest the real parser produced; the tokenizer never decodes character references inside element names (hypothesis tagsClean of the theorems)",
                    "URL.Host of a successfully dialled host contains no control characters (Actor.Name prints it)", LIBS["regexp"], LIBS["unicode"]],
        "assumptions": ["items (Post/Actor/Activity/Failure String, Preview, Name) and UI frames are covered at model level through the Clean closure theorems and differentially in C06/C07"],
    },
    "C12": {
        "timeouts_not_mine": True,
        "lean_modules": ["Props.C20b"],
        "groups": [{"name": "render", "quick": 3000, "thorough": 80000}, {"name": "mediaL", "quick": 600, "thorough": 20000, "workers": 12},
                   # numbers typed in the real UI (also while a media hook is running): what the hook is started with
                   {"name": "C07", "quick": 160, "thorough": 4000, "workers": 16},
                   # whole items (the same text under several media types in one process): the numbers in the item text
                   {"name": "present", "quick": 400, "thorough": 10000, "workers": 12}],
        "rule": "documents from grammars of HTML (inline styles, links, media, blockquotes, lists, headings, pre, hr, unknown tags, character-reference and raw control-character injections), Markdown, gemtext and plain text with URLs x sequences of 1..4 widths (-3..250); "
                "every link / image / frame gets a unique label text and target from the generator; predicates on the implementation's output: the superscript number printed after a label opens (links[k-1]) that label's own target, and the numbers 1..N are all shown; non-trivial = the document has links; distinct by op content; "
                "mediaL group: posts and actors with body links and attachment / icon / image lists, histories of SelectLink(k) for k in -1..6 (and Media, ProfilePic, Banner) on the real items, targets compared with the Link model",
        "trusted": ["x/net/html and goldmark (forest shipped with the op)", LIBS["regexp"]],
        "assumptions": ["adjacent numbers without any text between them (two empty anchors in a row) are visually ambiguous; the property is stated on the numbers as emitted (ghost labels), see DESIGN.md"],
    },
    "C14": {
        "timeouts_not_mine": True,
        "lean_modules": ["Props.Cells", "Props.Clean", "Props.C01p", "Props.Gen14"],
        "groups": [{"name": "C14", "quick": 4000, "thorough": 100000}, {"name": "render", "quick": 1500, "thorough": 40000},
                   {"name": "presentP", "quick": 600, "thorough": 20000, "workers": 12}],
        "rule": "style expressions (nesting and concatenation of the eight style functions over texts with newlines, blanks, tabs, wide characters) optionally followed by 0..3 layout steps (wrap, dumbwrap, pad, indent, snip, quote, header, bullet, link, linkblock); a terminal state machine is run on the implementation's output: per-character attributes must equal the enclosing style functions, and no attribute may be active at a line break or at the end; plus the render group; "
                "non-trivial = some character is styled; distinct by op content",
        "trusted": ["the terminal model: ESC[0m / ESC[m clear, any other SGR parameter string is added", LIBS["regexp"]],
        "assumptions": ["input text is ESC-free (it went through Scrub, C01)"],
    },
    "C02": {
        "groups": [{"name": "C02", "quick": 1200, "thorough": 40000, "workers": 12}],
        "rule": "multi-host worlds over five loopback TLS hosts: two actors on different hosts, a forged actor document, a thread of notes with replies, a replies collection and a paged outbox, where every reference is chosen among URL, embedded copy (stamped by the embedding host), stub of <= 2 keys, redirect; ids sometimes lie about their host; authors/actors/reply targets are sometimes impostors; start object chosen among all; "
                "compared: the whole item tree (kinds, ids, names = serving-host stamps, creators, parents, listed children); non-trivial = at least one child or ancestor is listed; distinct by op content",
        "trusted": ["crypto/tls, net; url.Parse (String/Host) as an oracle table; json decoding as an oracle table",
                    "references are absolute in generated worlds (ResolveReference is the identity; asserted by the harness)",
                    "goroutine fan-out in the constructors is an order-preserving map"],
        "assumptions": ["FetchURL semantics are those of the jtp model (C03), composed into the world by the driver"],
        "shrink_budget": 3,
    },
    "C06": {
        "groups": [{"name": "C06", "quick": 1500, "thorough": 40000, "workers": 12}, {"name": "renderdeep", "quick": 240, "thorough": 6000, "workers": 12},
                   {"name": "render", "quick": 800, "thorough": 20000}, {"name": "presentP", "quick": 800, "thorough": 20000, "workers": 12}],
        "rule": "JSON objects with the ActivityStreams keys filled with right- and wrong-typed values (types from all kinds incl. Tombstone/bogus, markup bodies in the four media types incl. 10..70 nested blockquotes, huge/negative/fractional numbers, malformed URLs and timestamps, embedded parents up to depth 3, collections with bogus entries, dead references to a closed port), built as post/actor/activity/any and then every Tangible method called at widths -50..300 and link numbers 0, +-1, 2^31, +-2^63; deep nesting of every block/inline tag to depth 5..65 at widths -1..80; "
                "a panic or a timeout (10 s) of the real code is an output; non-trivial = at least three strings were produced; distinct by op content",
        "trusted": ["x/net/html, goldmark (time and memory of the external parsers are observed, not proved)", "the Go runtime (wall-clock, memory)"],
        "assumptions": ["pubfuzz ops are predicate-only: the item-level String/Preview are not recomputed by the model; their building blocks (renderers, style, ansi, selection) are modelled and proved"],
        "shrink_budget": 3,
    },
    "C07": {
        "lean_modules": ["Props.Facts07"],
        # the model of Update *is* the keymap the property speaks of: a state that differs from
        # it after a key sequence is a key that did not do what the keymap says
        "correspondence_is_failure": {"ui": True},
        "groups": [{"name": "C07", "quick": 240, "thorough": 12000, "workers": 12},
                   # the same worlds in processes started with other preload amounts (the default is 5):
                   # nothing preloaded, one, two, more than any thread or listing holds
                   {"name": "C07", "quick": 24, "thorough": 1500, "workers": 2, "config": "[network]\npreload_amount = 0\n"},
                   {"name": "C07", "quick": 24, "thorough": 1500, "workers": 2, "config": "[network]\npreload_amount = 1\n"},
                   {"name": "C07", "quick": 24, "thorough": 1500, "workers": 2, "config": "[network]\npreload_amount = 2\n"},
                   {"name": "C07", "quick": 24, "thorough": 1500, "workers": 2, "config": "[network]\npreload_amount = 12\ncache_size = 3\n"}],
        "rule": "worlds over the TLS simulator: a thread of 1..8 notes (plain-text bodies containing URLs of other objects, so numbered links can be opened), a paged reply collection under the leaf (incl. an empty first page, comments answering another post, a missing collection), two actors on different hosts, multi-author posts (a foreign-host author turns the post into an error item), a paged outbox of 0..13 activities (some by another actor), an empty collection, a 404; started with Subcommand(open, <start>) and driven by 3..27 key tokens: j k g h l space c r a o p b, numbers followed by . / Enter / Esc / Backspace / another key (0, over-long numbers), :open <url>, :feed, bogus commands, arbitrary bytes, terminal resizes between keys and in the middle of typing (often one dimension only); "
                "added by the generator review: raw bytes that are not UTF-8 (BYTES tokens, also as whole command lines and after :open / :feed), numbers with leading zeros, with more digits than there are links, at the edges of int32/int64/uint64 and followed by every kind of key, notes with 9..13 links (two-digit numbers name links), "
                "Escape / Backspace at a random point of a partially typed command or number with the rest typed all the same, :open and :feed with odd arguments (empty, spaces only, leading/trailing space, other letter case, 150..550 characters, fragment, query, other scheme, no scheme, @ and ! and file forms, non-ASCII, NUL, two commands in one token), "
                "one session in 14 of 100..220 tokens plus a history 8..37 pages deep walked to both ends, HELD tokens (the simulator holds every request, a starter :open / :feed / N. is typed, and while its page load is in flight - reported by the harness per token - every kind of key token and resizes arrive, which the keymap says do nothing), "
                "HELDS tokens (the same while only the surroundings of a page are loading: every key but j/k and page loads, compared with the same keys typed one by one), terminals of 1..8 columns or 1..3 rows from the start or by resize with every kind of status line and the loading frame drawn on them, "
                "one world in 8 with items of 120..420 lines at the ends and the centre of the thread, the interface started with `feed <name>` (an unknown feed or subcommand must be refused before any page exists), media hooks that fail silently / with two lines / with 400 long lines on both streams / with control bytes, escape sequences and invalid UTF-8 / succeed with much output, "
                "and the same ops in processes started with preload_amount 0, 1, 2 and 12 (cache_size 3); "
                "after every token (once loads have settled, detected through the shim) compared: mode, buffer, highlighted item, the window of items around the cursor, presence of frontier/children, base point, the number of history steps possible backwards and forwards; non-trivial = at least three tokens; distinct by op content",
        "trusted": ["crypto/tls, net; the Go scheduler (the check waits for quiescence; interleavings are C08's subject)",
                    "url/json oracle tables as in C02; GetMarkup's link list for every body as an oracle table (numbering itself is C12)",
                    "webfinger handles, local files and configured feeds are outside the generated worlds (modelled as error items / 'not a known feed')"],
        "assumptions": ["Config.Safe (C19); no media links in the generated worlds (o/p/b are no-ops there; argv construction is C20)"],
        "shrink_budget": 2,
    },
    "C08": {
        "lean_modules": ["Props.Facts17"],
        "groups": [{"name": "C08", "quick": 96, "thorough": 3000, "workers": 12}],
        "race": True,
        "level": "proof",
        "rule": "the UI worlds of C07 driven the way main.go drives the UI: one goroutine per key byte (30..90 navigation, selection, :open and :feed tokens, also failing :open and unknown commands), 1..3 pollers resizing every 0.3..0.6 ms (one run in three also to 1..5 columns / 2..3 rows and 200x70), simulator latencies of 0..8 ms drawn per request, in one run in three a latency bound redrawn every 0.1..1 ms from 0..30 ms, "
                "keys in bursts without any gap / with rare long gaps / with a gap after every third, feeds of the op itself (live outboxes and threads, an empty one, two dead addresses, a dead address next to live ones, an unknown name), the interface started by open or by feed, one response in 12 cut short (EOF or reset at a random offset, reset before the first byte) or dribbling in byte by byte, "
                "media hooks that sleep 2..20 ms, exit at once with success or failure, fail with a line or with 200 KB of output, read their input and exit, or cannot be started at all; all under the Go race detector; observed: data-race reports, overlapping frame emissions, frames whose height differs from the state's height at drawing time, key handlers that never return (20 s watchdog); "
                "non-trivial = at least one frame was emitted; distinct by op content",
        "trusted": ["extract/ (go/ast): reports the lock/access skeleton of ui/ui.go and the goroutine fan-outs faithfully; paths through a method are sub-sequences of its flattened skeleton with the same lock state because lock operations occur only at nesting depth 0 (checked)",
                    "the Go memory model, sync.Mutex, sync.WaitGroup; golang-lru and singleflight are internally synchronised",
                    "the race detector and the stress only validate the extraction; they are not the proof"],
        "assumptions": ["commands succeed (Subcommand deliberately keeps the mutex on error so that main can clean up)"],
        "shrink_budget": 0,
    },
    "C09": {
        "groups": [{"name": "C02", "quick": 1200, "thorough": 40000, "workers": 12}],
        "rule": "the same multi-host worlds as C02 (outboxes and reply collections mixing legitimate entries with other-actor activities, other-parent comments, foreign-host authors, missing ids/actors/reply targets, embedded vs referenced, failing fetches); "
                "compared: per-position classification of every listed entry; predicates on the implementation's output: a listed activity's actor id equals the owner's id, a listed reply's parent id equals the post's id, authors share the post's host; non-trivial = at least one child or ancestor is listed; distinct by op content",
        "trusted": ["as C02"],
        "assumptions": [],
        "shrink_budget": 3,
    },
    "C03": {
        "lean_modules": ["Props.Facts03"],
        "groups": [{"name": "C03", "quick": 1600, "thorough": 40000, "workers": 8}],
        "rule": "status / Content-Type / Location lines and header blocks from a grammar with mutations (case, blanks, CR, missing newline, odd versions and codes); worlds of 1..4 documents and 0..25 redirects over five loopback TLS hosts (relative and cross-host Locations, non-https hops, missing/unparsable Location, self loops and cycles, chains around the budget of 20, odd status lines, content types, bodies) x sequences of 1..8 fetches (cache warm-up); "
                "compared: result class, source, stamp, and the exact request sequence the simulator saw; non-trivial = at least two connections were opened; distinct by op content",
        "trusted": ["crypto/tls, net (the simulator is reached through the unmodified jtp.Get; CA via SSL_CERT_FILE)",
                    "url.Parse / ResolveReference and json.Decoder as oracle tables computed by the real libraries per world (model parameters `Env.resolve`, `Env.decode`)",
                    "golang-lru eviction order as modelled (`Cache.get`/`Cache.add`); the transparency theorem does not depend on it (any sound cache)",
                    LIBS["regexp"]],
        "assumptions": ["servers unchanged between fetches (the `Env` is fixed)"],
    },
    "C04": {
        "lean_modules": ["Props.Facts04", "Props.Facts04b"],
        "groups": [{"name": "C04", "quick": 1200, "thorough": 30000, "workers": 8},
                   # redirect worlds (non-https hops, relative and cross-host Locations): what goes on the wire there
                   {"name": "C03", "quick": 400, "thorough": 10000, "workers": 8}],
        "rule": "fetches of URLs with hostile paths and queries (raw and encoded CR/LF, spaces, %00, fragments), userinfo, upper-case scheme, non-https schemes, scheme-less references, redirects to plaintext and to CR/LF-carrying Locations, a plaintext canary listener; webfinger lookups with hostile account and domain parts (CR/LF, spaces, '#', '?', userinfo, unresolvable names); "
                "compared: result and the raw bytes of every connection; non-trivial = at least one connection reached the simulator; distinct by op content",
        "trusted": ["crypto/tls, net, DNS (a TLS dial succeeds only for a syntactically valid host name or IP literal)",
                    "url.Parse rejects ASCII control bytes, so RequestURI()/Host of a parsed URL are CR/LF-free (evaluated on every generated URL through the request comparison)",
                    "url.Values.Encode as an oracle for the webfinger query"],
        "assumptions": ["TLS, DNS and socket behaviour are not modelled (partial)"],
        "shrink_budget": 4,
    },
    "C05": {
        "lean_modules": ["Props.Facts04"],
        "groups": [{"name": "C05", "quick": 160, "thorough": 6000, "workers": 16, "config": "[network]\ntimeout_seconds = 1\n"},
                   # whole items over worlds with unreachable and failing secondary fetches (replies, authors): an error item, never a crash
                   {"name": "C07", "quick": 96, "thorough": 2000, "workers": 16},
                   {"name": "C05x", "quick": 0, "thorough": 400, "workers": 1, "config": "[network]\ntimeout_seconds = 1\n"}],
        "replay_config": "[network]\ntimeout_seconds = 1\n",
        "level": "fault_enumeration",
        "rule": "a document behind 0..2 redirect hops over the TLS simulator, one hop carrying a fault: response cut at a random byte or at a structural boundary (status line, CRLF, blank line, last byte) followed by EOF, TCP reset or silence; cuts placed relative to the end of the Location value as served (one character short of it, where a decoy document lives; exactly at its end; after the CR); total silence after the handshake; 100 ms/byte trickle from the first byte; headers at once and the rest dripping every 250 ms (slowtail); TCP accept without TLS handshake; timeout 1 s; "
                "compared: result class with the model on the bytes the client can have received, and wall-clock <= (connections+1)*2 s + 1.5 s; non-trivial = at least two connections; distinct by op content",
        "trusted": ["net.Conn honours SetDeadline; json.Decoder succeeds only on a complete top-level value (validated by the cut-point enumeration)",
                    "crypto/tls, the Go scheduler and wall-clock time (observed, not proved)"],
        "assumptions": ["timeout_seconds > 0 (0 means no timeout, as for net.Dialer)"],
        "shrink_budget": 0,
    },
    "C10": {
        "lean_modules": ["Props.Facts10"],
        "groups": [{"name": "C10", "quick": 4000, "thorough": 150000},
                   # remote pages over the simulator (pages named by URL, on other hosts, URLs that differ in letter case only)
                   {"name": "C02", "quick": 600, "thorough": 20000}],
        "rule": "page chains of 0..18 embedded pages (Collection/OrderedCollection, items on the root and/or pages, empty pages with varying bias, absent/null/single-value items, wrong page types, chains ending in a non-https reference, a non-object, a non-collection or an object that would need re-fetching) x request-size sequences (one large request, constant small requests, random sizes incl. 0) x start offsets; "
                "non-trivial = at least three pages visited; distinct by op content",
        "trusted": ["encoding/json decoding (typed tree shipped to the model)",
                    "remote pages: in this check every `next` that would need the network fails deterministically (non-https / non-object); remote and cyclic chains are covered by the theorems (arbitrary `load`) and by the simulator-based checks (C02/C09)"],
        "assumptions": ["amount + startingPoint < 2^64 (Go uint)"],
    },
    "C11": {
        # the Splicer model is the merge the property describes (take_is_trace, take_exactly_once):
        # a delivery that differs from it is an item out of place
        "correspondence_is_failure": {"splice": True},
        "lean_modules": ["Props.Facts11"],
        "groups": [{"name": "C11", "quick": 4000, "thorough": 150000},
                   # feeds over simulator-served actors and collections, through splicer.NewSplicer and the UI
                   {"name": "C07", "quick": 128, "thorough": 4000, "workers": 16}],
        "rule": "0..4 sources of 0..7 items (newest-first with ties, or unsorted; missing timestamps; empty and nil sources) over exact-delivery synthetic containers x scripts of 1..6 harvests (sizes 0..6, start offsets, 'again' = the same position asked twice); "
                "non-trivial = at least two sources and three delivered items; distinct by op content",
        "trusted": ["slice aliasing in Splicer.clone (shared backing arrays) is modelled by value semantics; 'again' steps re-harvest old positions to exercise it",
                    "containers deliver exactly the requested amount unless exhausted (C10 theorem harvest_cont)"],
        "assumptions": [],
    },
    "C13": {
        "lean_modules": ["Props.C13s"],
        "groups": [{"name": "C13", "quick": 6000, "thorough": 200000},
                   {"name": "C13x", "quick": 0, "thorough": 6, "workers": 1}, {"name": "unicodeall", "quick": 0, "thorough": 1, "workers": 1}],
        "rule": "styled text from a cell grammar (words, runs of all IsSpace kinds, newlines, nested SGR attributes; 1 in 5 a hostile ESC/[/m string) x widths -3..250; "
                "non-trivial = some input line is longer than the width (wrap/dumbwrap/pad actually act) / more lines than the height (snip) / a styled cell is present (expand); distinct by op content",
        "trusted": [LIBS["regexp"], LIBS["unicode"]],
        "assumptions": ["model strings are sequences of Unicode scalar values (valid UTF-8 in Go)",
                        "the width theorems are about canonical styled text (what servitor's own style layer produces); hostile strings are covered by the correspondence check only"],
    },
    "C17": {
        "lean_modules": ["Props.Gen17", "Props.Facts17", "Props.GenT17"],
        "groups": [{"name": "C17", "quick": 8000, "thorough": 300000}],
        "rule": "JSON documents with null/bool/number/string/array/object under keys k, m, z (numbers from an edge pool around 0, +-1, 2^53, 2^63, 2^64, subnormals, huge exponents, random bit patterns and integers around powers of two; strings with control characters, timestamps, URLs, media types) x every accessor x present/absent keys; "
                "non-trivial = the key is present in the document; distinct by op content",
        "trusted": ["encoding/json decoding (the model starts from the decoded value, shipped as a typed tree with IEEE bit patterns)",
                    "time.Parse(RFC3339) and url.Parse as oracle tables computed by the real libraries per case (model parameters `Libs`)",
                    "Go's uint64(float64) conversion for in-range integral values is exact (language definition)"],
        "assumptions": ["JSON cannot produce NaN or infinities (encoding/json rejects out-of-range literals)"],
    },
    "C18": {
        "lean_modules": ["Props.Gen18", "Props.GenT18"],
        "correspondence_is_failure": {"history": True, "feed": True},
        "groups": [{"name": "C18", "quick": 4000, "thorough": 100000},
                   {"name": "C18x", "quick": 6, "thorough": 9, "workers": 1}],
        "rule": "random history sequences (add/back/forward, length 0..200) and feed sequences (create or create-list, then append/prepend/up/down/center, length 0..30) observed after every step "
                "(IsEmpty, Current / Current, and Contains, IsParent, IsChild, Get over offsets -4..4); plus all history sequences up to the length bound and all feed sequences up to bound-2 (group C18x); "
                "non-trivial = at least two adds and one move (history) / at least two steps (feed); distinct by op content",
        "trusted": ["Go slice aliasing in History.Add (append on a re-sliced array) is modelled by value semantics; interleaved back/add/forward sequences exercise it"],
        "assumptions": ["feed.CreateEmpty is dead code on the tree and outside the property (create / create-list are the documented constructors)",
                        "Go int overflow of feed bounds is out of scope"],
    },
    "C19": {
        "lean_modules": ["Props.Facts19", "Props.Facts19b"],
        "groups": [{"name": "C19", "quick": 3000, "thorough": 60000},
                   {"name": "C19x", "quick": 4000, "thorough": 16777216, "workers": 16},
                   # processes started with the smallest accepted sizes, then used: fetches under cache_size = 1 and 2
                   {"name": "C03", "quick": 120, "thorough": 4000, "workers": 4, "config": "[network]\ncache_size = 1\ntimeout_seconds = 9223372036\n"},
                   {"name": "C03", "quick": 120, "thorough": 4000, "workers": 4, "config": "[network]\ncache_size = 2\npreload_amount = 0\ntimeout_seconds = 0\n"},
                   # ... and the interface under the largest accepted sizes, and with nothing preloaded
                   {"name": "C07", "quick": 24, "thorough": 400, "workers": 8, "config": "[network]\npreload_amount = 2147483647\ncache_size = 9223372036854775807\n"},
                   {"name": "C07", "quick": 24, "thorough": 400, "workers": 8, "config": "[network]\npreload_amount = 0\ncache_size = 1\n"}],
        "rule": "hexToAnsi on valid, near-valid (one bad digit, signs, underscores, wrong length, non-ASCII digits) and random strings; configuration files generated value-first (colours, preload_amount/timeout_seconds/cache_size from {-1000..1000} and from the edges of int32, of a duration in seconds and of int64, key names in other letter cases, values of other TOML types (durations as strings, floats, booleans, hex/octal/underscored integers, inline tables, dotted keys: the model starts from what the decoder produced), hooks of 0..3 arguments, unknown keys/tables, syntax errors, missing file) "
                "then serialised to TOML and loaded by the real parse+postprocess; C19x walks the 16^6 colour space (a stride sample in quick, all of it in thorough); non-trivial = colour accepted / configuration not rejected by TOML itself; distinct by op content",
        "trusted": ["BurntSushi/toml decoding (the model starts from the decoded values; TOML-level rejections are the generator's ground truth)",
                    "strconv.ParseUint(.,16,0) on two bytes and strconv.Itoa as modelled"],
        "assumptions": ["Config.Safe is the only configuration hypothesis used by the panic-freedom theorems of C06/C07/C20"],
    },
    "C20": {
        "lean_modules": ["Props.Facts19", "Props.C20b", "Props.Facts20"],
        "groups": [{"name": "C20", "quick": 600, "thorough": 20000, "workers": 12},
                   {"name": "media", "quick": 600, "thorough": 20000, "workers": 12},
                   # configuration files through the real parser: the hook that reaches openExternally is the configured one
                   {"name": "C19", "quick": 1000, "thorough": 20000}],
        "rule": "hooks of 1..5 arguments drawn from exact placeholders, embedded/near placeholders, dashes and empty strings, with the program itself sometimes named like a placeholder; links with spaces, quotes, shell metacharacters, leading dashes, newlines, placeholder look-alikes; "
                "the real ui.openExternally runs a dump program that records argv and stdin; non-trivial = at least one argument after the program; distinct by op content; "
                "media group: posts and actors built from documents with url / attachment / icon / image link lists (typed, untyped, malformed, shorthand strings) x histories of 3..9 openings (Media, SelectLink k, ProfilePic, Banner, one of them repeated) through the real selection code and the real openExternally; non-trivial = something was selected",
        "trusted": ["os/exec passes argv unchanged and never involves a shell (generated fact: exec.Command(command[0], command[1:]...))"],
        "assumptions": ["the hook is non-empty (Config.Safe, C19)"],
    },
    "C15": {
        "timeouts_not_mine": True,
        "lean_modules": ["Props.C13s"],
        "groups": [{"name": "render", "quick": 2500, "thorough": 60000}],
        "rule": "documents from grammars of HTML (inline styles, links, media, blockquotes, lists, headings, pre, hr, unknown tags, character-reference injections), Markdown, gemtext and plain text with URLs x sequences of 1..4 widths (with repeats and returns to earlier widths; -3..250); the same Markup value is rendered at each width in order; "
                "non-trivial = the document has links or is rendered at more than one width; distinct by op content",
        "trusted": ["x/net/html and goldmark (the model renders the forest the real parser produced, shipped with the op; theorems quantify over all forests)", LIBS["regexp"], LIBS["unicode"]],
        "assumptions": ["width >= 1 for the width clause"],
    },
    "C16": {
        "lean_modules": ["Props.C16b", "Props.Gen16", "Props.GenT16"],
        "groups": [{"name": "C16", "quick": 6000, "thorough": 200000}, {"name": "C07", "quick": 160, "thorough": 4000, "workers": 16},
                   {"name": "C16x", "quick": 0, "thorough": 7, "workers": 1},
                   # concurrent keys, loads and resizes: every frame as tall as the state says when it is drawn
                   {"name": "C08", "quick": 24, "thorough": 600, "workers": 12}],
        "rule": "prefix/centered/suffix of 0..8 styled lines each x heights 1..16; one layout in four with parts of nothing, of up to 40 styled lines, of 100..500 rows or of up to 300 empty lines above, at and below the cursor x heights 1..4, around the size of the centre and of centre + twice the part above / below (where the layout changes its case), the sum of all parts, 2..61 and 100..999; "
                "ReplaceLastLine on frames of one line, of empty lines only and of hundreds of lines with an empty or a styled status line; status-line SetLength on raw text (control characters, often exactly as long as the width); the C07 sessions (all frames judged: tiny terminals, very tall items, every status line, hook output variants, loading frames drawn during held loads) and the C08 stress (frame height against the state's height at drawing time); "
                "thorough: C16x = every geometry of 0..7 lines per part (0 = the empty string) x heights 1..16; non-trivial = height exceeds the centred text (buffers are computed); distinct by op content",
        "trusted": [LIBS["regexp"]],
        "assumptions": ["frames are produced only by ui.State.view (generated fact)", "terminal height >= 2 for the status line clause"],
    },
}

# --------------------------------------------------------------------------------------------
# Texts for MANIFEST.json (checks/gen_manifest.py)

MANIFEST_TEXT = {
    "C01": {
        "text": "Lean theorems: Scrub leaves no control character but newline; clean styled text (printable characters, newlines, well-formed SGR around single characters) is terminal-safe and is closed under the whole style layer, every layout function and the HTML/Markdown, gemtext and plain-text renderers for every forest (arbitrary strings in text nodes and attributes), source and width; error text through style.Problem and the status line through SetLength are safe for every message; accepted configurations have well-formed colours. Tied to the code by differential correspondence on the renderers, style.Problem, Scrub, SetLength; the Safe predicate is evaluated on every implementation output.",
        "design_ref": "DESIGN.md §5 C01",
        "note": "Trusted: Lean kernel; correspondence check (testing); x/net/html, goldmark; element names are control-free; URL.Host of dialled hosts.",
        "technique": "Lean 4 proof (Clean invariant, mutual induction over the renderer) + differential correspondence with a safety predicate on every output",
    },
    "C12": {
        "text": "Lean theorems: in every renderer each numbered element prints the index of its own target (ghost labels = 1..N in order, nesting included), the link list is independent of the width, and SelectLink(k) returns body link k, then attachment k-|links|, and nothing for any other integer; the numbers supplement prints select the right attachment. Tied to the code by differential correspondence on the renderers with generator-assigned labels and targets; label->target and 1..N predicates are evaluated on every implementation output.",
        "design_ref": "DESIGN.md §5 C12",
        "note": "Trusted: Lean kernel; correspondence check (testing); parsers; adjacency of numbers is not part of the statement.",
        "technique": "Lean 4 proof (ghost-label invariant by mutual induction over the renderer) + differential correspondence with a label oracle",
    },
    "C14": {
        "text": "Lean theorems: the terminal displays each cell of rendered clean text with exactly its attributes and is neutral after every cell; for every nesting/concatenation of the style functions over ESC-free text the result is the rendering of cells whose attributes are exactly the enclosing functions; clean text stays clean (hence neutral at every line break and at the end) under wrap, dumbwrap, pad, indent, snip, centring, last-line replacement and the renderers, and can be cut at line boundaries. Tied to style.go/ansi.go by differential correspondence on style expressions and layout pipelines, running the terminal state machine on the implementation's output.",
        "design_ref": "DESIGN.md §5 C14",
        "note": "Trusted: Lean kernel; correspondence check (testing); the terminal model of SGR.",
        "technique": "Lean 4 proof (cell-level refinement of the ANSI layer) + differential correspondence with a terminal state machine",
    },
    "C02": {
        "text": "Lean theorems over an arbitrary world (fetch function): FetchUnknown returns an object with an id only if that object was served by the id's host (directly, or re-fetched, or embedded in a document from it), and the constructors only ever pass an enclosing object's own validated id as source, so every item of a built tree has provenance at its id's host; a foreign embedded object is re-fetched or rejected as forged. Tied to client.go/pub by differential correspondence on whole item trees over multi-host TLS worlds whose every body is stamped with the serving host; the stamp-vs-id predicate is evaluated on every implementation output.",
        "design_ref": "DESIGN.md §5 C02",
        "note": "Trusted: Lean kernel; correspondence check (testing); net/url host parsing as a parameter; TLS.",
        "technique": "Lean 4 proof (provenance invariant through FetchUnknown and the constructors) + differential correspondence over multi-host simulator worlds",
    },
    "C06": {
        "text": "Lean theorems for every panic site the rendering path has: the <hr> repeat count is never negative after the guard (and strings.Repeat is shown to panic exactly on negative counts, so the site is real), link selection is total and returns nothing below 1, SetLength/Snip/ReplaceLastLine succeed under the conditions their callers establish, paging terminates on every chain (C10) and Current() is defined (C18); all other modelled functions are total by construction. Tied to the code by running every Tangible method of items built from generated hostile JSON and deep markup under recover, a 10 s watchdog and a memory limit, plus the renderer correspondence. Partial: wall-clock and memory are observed.",
        "design_ref": "DESIGN.md §5 C06",
        "note": "Trusted: Lean kernel; correspondence/fuzzing (testing); external parsers; Go runtime. Known finding: cubic render time under very deep block nesting.",
        "technique": "Lean 4 proof (panic-site theorems over Except-valued model functions) + differential correspondence and crash/hang observation under recover and watchdog",
    },
    "C07": {
        "text": "Lean model of State.Update (every branch, in order) over the item model, with theorems over all worlds and all byte sequences: Update never panics from any state reachable from Subcommand(open, .) (history non-empty, selection buffer all digits), and each key does what the keymap says (j/k move within bounds, g returns to the opened item, h/l walk the history, space/c/r/a/./:open push exactly one page and drop the forward history, Esc/Backspace cancel, digits select). Tied to ui.go by driving the real ui.State against simulator worlds and comparing mode, buffer, cursor and the visible window after every key; every emitted frame must have the terminal's height and be terminal-safe.",
        "design_ref": "DESIGN.md §5 C07",
        "note": "Trusted: Lean kernel; correspondence check (testing); quiescence detection; oracle tables; TLS.",
        "technique": "Lean 4 proof (invariant by induction over the key sequence; keymap corollaries) + differential correspondence of the real UI against the model after every key",
    },
    "C08": {
        "text": "Lean theorems about a model of one mutex plus ownership tokens, for every program, every number of threads and every interleaving: the static discipline (accesses under the mutex or the variable's token, tokens handled under the mutex, no nested lock) excludes data races, makes frame emission exclusive, excludes deadlock and makes every execution finite. The lock/access skeleton of ui/ui.go and the goroutine fan-outs of pub/splicer are regenerated from the source by a go/ast extractor on every run and shown (by evaluation in Lean) to satisfy the discipline: every entry point, private methods lock-free, the loading-flag ownership protocol, pairwise-disjoint fan-out writes. The extraction is validated by a -race stress of the real UI with an overlap detector and a watchdog. Partial: extraction and the Go memory model are trusted.",
        "design_ref": "DESIGN.md §5 C08",
        "note": "Trusted: Lean kernel; extract/ (go/ast); Go memory model, sync primitives; race-detector stress is validation only.",
        "technique": "Lean 4 proof (interleaving model, invariant over all reachable states) over facts regenerated from the source by a translator + race-detector stress as validation",
    },
    "C09": {
        "text": "Lean theorems: an outbox element is delivered as an activity iff construction succeeded, the owner has an id and the activity's resolved actor id equals it; a reply element is delivered as a post iff its resolved inReplyTo id equals the post's id; a post is built only if every resolved author shares its host; listings keep one entry per element in order, failures in place. Tied to pub by differential correspondence on listings over multi-host worlds with impostors; genuineness predicates are evaluated on every implementation output.",
        "design_ref": "DESIGN.md §5 C09",
        "note": "Trusted: as C02.",
        "technique": "Lean 4 proof (case analysis of the listing filters, positions via the paging theorems) + differential correspondence",
    },
    "C03": {
        "text": "Lean theorems for all response byte strings, worlds, budgets and caches: an exchange yields a document iff the status is 200-203, at least one Content-Type line is present, every Content-Type line names a tolerated type, the header block is terminated; a fetch succeeds only along a chain of https hops within the budget whose last response is such a document, source = URL of that response, at most budget+1 requests; every sound cache (any eviction) is transparent: same result as with an empty cache. Tied to jtp.go by differential correspondence on the recognisers and on jtp.Get against a loopback TLS simulator, request log included.",
        "design_ref": "DESIGN.md §5 C03",
        "note": "Trusted: Lean kernel; correspondence check (testing); TLS/net; url and json libraries as oracle tables; LRU order as modelled.",
        "technique": "Lean 4 proof (structural recursion on the redirect budget, cache soundness invariant) + differential correspondence against a TLS simulator",
    },
    "C04": {
        "text": "Lean theorems about the byte template of the only connection.Write: for CR/LF-free request-URI, host and accept the bytes parse (with a strict HTTP/1.0 reader) as exactly one GET with a Host and an Accept header and nothing after the blank line; connections are opened only for https URLs on every hop. Tied to jtp.go/client.go by recording the raw bytes of every connection at a TLS simulator (plus a plaintext canary) for hostile URLs and webfinger handles and comparing them with the template. Partial: TLS, DNS, sockets are not modelled.",
        "design_ref": "DESIGN.md §5 C04",
        "note": "Trusted: Lean kernel; correspondence check (testing); net/url control-byte rejection; crypto/tls; DNS.",
        "technique": "Lean 4 proof (byte-level request contract) + differential correspondence on recorded connection bytes",
    },
    "C05": {
        "text": "Lean theorems about the classification of truncated streams: if a complete response is a document, every truncation inside the status line or header block is an error and a truncation inside the body hands exactly the truncated body to the decoder, so with a prefix-free decoder a truncated response is never a document; a fetch opens at most budget+1 connections, hence is bounded by (budget+1)*T when each connection is bounded by T. The runtime part (deadline honoured, TLS, resets, stalls, trickling, wall-clock) is enumerated against the real jtp.Get with the simulator's fault modes. Partial by nature.",
        "design_ref": "DESIGN.md §5 C05",
        "note": "Trusted: Lean kernel; fault-injection correspondence (testing); net.Conn deadlines; json.Decoder; wall-clock.",
        "technique": "Lean 4 proof (prefix lemmas on the response reader) + fault enumeration against a TLS simulator",
    },
    "C10": {
        "text": "Lean theorems for every page chain given by an arbitrary load function (cyclic and endless chains included) and all request sizes and offsets: bounded number of pages visited; the delivery is a prefix of the true sequence followed by at most one error item; a continuation means exactly the requested amount; harvesting n1 then n2 equals harvesting n1+n2; an empty continuation without error only at a clean end with everything delivered; refusal only after more than three consecutive empty pages. Termination itself is the well-founded measure of the model. Tied to collection.go by differential correspondence on generated embedded chains; the prefix predicate is evaluated on every implementation output.",
        "design_ref": "DESIGN.md §5 C10",
        "note": "Trusted: Lean kernel; correspondence check (testing); encoding/json; the goroutine fan-out inside Harvest modelled as an order-preserving map.",
        "technique": "Lean 4 proof (well-founded recursion + functional induction) + differential correspondence",
    },
    "C11": {
        "text": "Lean theorems for all source lists, timestamps and request sizes: each microharvest pops the first head with maximal timestamp; taking q items is a trace of pops, each source's delivered items followed by its remaining buffer equal its original buffer (exactly once, order kept); taking q1 then q2 equals taking q1+q2; skipping then taking equals dropping; the continuation is none exactly when the buffers ran dry. Tied to splicer.go by differential correspondence over synthetic sources through a package-internal shim.",
        "design_ref": "DESIGN.md §5 C11",
        "note": "Trusted: Lean kernel; correspondence check (testing); value semantics for the cloned slice-of-structs; replenish goroutines as an order-preserving map.",
        "technique": "Lean 4 proof (induction over pops with a first-maximum invariant) + differential correspondence",
    },
    "C13": {
        "text": "Lean theorems over all lists of regex matches (hence all strings) and all widths >= 1 for Wrap (width, content, breaks, word integrity), DumbWrap, Pad, Indent and Snip; the model is tied to ansi.go by a differential correspondence check on generated styled and hostile text, with the same predicates evaluated on the implementation's output.",
        "design_ref": "DESIGN.md §5.0, §5 C13",
        "note": "Trusted: Lean kernel; the correspondence check (testing) between ansi.go and lean/Model/Ansi.lean; Go regexp semantics of the expand pattern (validated differentially); unicode.IsSpace table as transcribed.",
        "technique": "Lean 4 proof (induction over the wrap state machine) + differential correspondence",
    },
    "C17": {
        "text": "Lean theorems for all JSON values, keys and accessors: each accessor returns exactly absent (missing/null/empty), wrong (other type/unparseable/out of range) or the faithful value; GetNumber returns n iff the double's exact value (computed from its bit pattern with integer arithmetic) is the natural number n < 2^64. Tied to object.go twice: GetAny, GetString, GetObject, GetList, GetTime, GetURL, GetMediaType and the getPrimitive instances they use are translated to Lean on every run (extract/go2lean3.go -> Generated/GoObject.lean) and proved equal to the model's accessors (Props/Gen17.lean); and (all accessors, GetNumber and GetMarkup included, and mime.go) by differential correspondence on values decoded by the real encoding/json; number exactness, empty-means-absent and sanitisation are also checked on every implementation output.",
        "design_ref": "DESIGN.md §5 C17",
        "note": "Trusted: Lean kernel; correspondence check (testing); encoding/json, time.Parse, url.Parse as parameters/oracle tables.",
        "technique": "Lean 4 proof (case analysis over a JSON datatype, bit-exact IEEE-754 model) over a model proved equal to the Lean translation of the accessors regenerated on every run + differential correspondence",
    },
    "C18": {
        "text": "Refinement theorems in Lean: every history op sequence keeps the invariant, never panics and denotes what a zipper computes; every feed operation preserves the representation of a two-sided sequence, lookups/containment/parent-child agree with positions, append/prepend never move items, moves stay in bounds. Tied to history.go/feed.go twice: both files are translated to Lean on every run (extract/go2lean.go -> Generated/GoHistory.lean, GoFeed.lean) and every method of the generated code is proved equal to the model's (Props/Gen18.lean); and by differential correspondence after every step, exhaustive up to a length bound.",
        "design_ref": "DESIGN.md §5 C18",
        "note": "Trusted: Lean kernel; correspondence check (testing; exhaustive to length 7 quick / 9 thorough); slice aliasing and Go map semantics as modelled.",
        "technique": "Lean 4 proof (refinement to zipper / two-sided sequence by induction over operations) over a model proved equal to the Lean translation of the Go source regenerated on every run + differential correspondence",
    },
    "C19": {
        "text": "Lean theorems for all strings and all decoded configurations: hexToAnsi accepts exactly '#' + six hex digits and yields three decimal components 0..255; an accepted configuration satisfies Config.Safe (non-empty hook, cache >= 1, 0 <= preload <= MaxInt32, timeout >= 0 and converted to nanoseconds in wrapping int64 arithmetic without wrap-around, well-formed colours), a rejected one names an invalid key, valid ones are accepted, the defaults are safe. Tied to config.go by differential correspondence through a package-internal shim on generated TOML files; colour well-formedness is also checked on every implementation output; thorough walks all 16^6 colours.",
        "design_ref": "DESIGN.md §5 C19",
        "note": "Trusted: Lean kernel; correspondence check (testing); TOML decoding; strconv as modelled.",
        "technique": "Lean 4 proof (character-level case analysis) + differential correspondence, exhaustive colour space in thorough",
    },
    "C20": {
        "text": "Lean theorems for all hooks, links and media types: argv has the hook's length, the program name is never substituted, an argument is replaced iff it is exactly a placeholder, stdin carries the link iff no %url argument, the link is one verbatim argument. Tied to ui.openExternally by running the real function with a dump program as the hook and comparing argv/stdin with the model; the same predicates are checked on the recorded argv.",
        "design_ref": "DESIGN.md §5 C20",
        "note": "Trusted: Lean kernel; correspondence check (testing); os/exec argv passing.",
        "technique": "Lean 4 proof (list induction) + differential correspondence through a recording hook program",
    },
    "C15": {
        "text": "Lean theorems for every forest / line list / string and every width >= 1: no rendered line exceeds the width (the final whole-document Wrap, via wrap_width, followed by trims that only remove characters); the cached text always equals the pure renderer at the cached width, so after any sequence of widths Render(w) returns R(tree, w). Tied to hypertext/gemtext/plaintext/markdown by differential correspondence on the forests the real parsers produce and on width sequences; width and same-width-same-text predicates are evaluated on every implementation output.",
        "design_ref": "DESIGN.md §5 C15",
        "note": "Trusted: Lean kernel; correspondence check (testing); x/net/html, goldmark; the regexes of gemtext/plaintext as modelled.",
        "technique": "Lean 4 proof (wrap_width + cache invariant by induction over the width sequence) + differential correspondence",
    },
    "C16": {
        "text": "Lean theorems for all prefix/centred/suffix texts and all heights >= 1: CenterVertically returns exactly h lines, centred as specified; ReplaceLastLine keeps the height for texts of >= 2 lines; SetLength is newline-free. Tied to ansi.go twice: Height, CenterVertically, ReplaceLastLine, SetLength and Squash are translated to Lean on every run (extract/go2lean2.go -> Generated/GoAnsi.lean) and proved equal to the model's functions (Props/Gen16.lean); and by differential correspondence; the height predicate is evaluated on every implementation output.",
        "design_ref": "DESIGN.md §5 C16",
        "note": "Trusted: Lean kernel; correspondence check (testing); strings.Split/Join/Count/Repeat/LastIndex as modelled on character lists.",
        "technique": "Lean 4 proof (list lemmas on split/join) over a model proved equal to the Lean translation of the layout functions regenerated on every run + differential correspondence",
    },
}

NOT_APPLICABLE = {p: "check not built yet in this round (planned, see DESIGN.md §7)" for p in
                  ["C%02d" % i for i in range(1, 21)]}
