"""Per-property configuration of ./check: harness groups and sizes per tier, evidence texts."""

LIBS = {
    "regexp": "Go regexp semantics of the `expand` pattern are validated differentially (op expand), not proved",
    "unicode": "unicode.IsSpace / unicode.IsControl are modelled as explicit code-point predicates (compared with Go on all code points in the thorough tier)",
}

# four colours that differ from the defaults and from each other (components 0, 1, 10, 255, mixed case)
C14_COLOURS = "[style.colors]\nprimary = \"#000000\"\nerror = \"#FFfe01\"\nhighlight = \"#0a0B0c\"\ncode_background = \"#ffffff\"\n"

PROPS = {
    "C01": {
        "timeouts_not_mine": True,
        "lean_modules": ["Props.Clean", "Props.Cells", "Props.Facts19", "Props.C01p", "Props.Gen01p", "Props.GenT01p", "Props.Gen15h", "Props.GenT15h", "Props.Gen16m", "Props.GenT01m"],
        "groups": [{"name": "render", "quick": 2500, "thorough": 60000}, {"name": "C01misc", "quick": 2000, "thorough": 60000},
                   {"name": "C14", "quick": 1500, "thorough": 40000}, {"name": "C06", "quick": 1200, "thorough": 30000, "workers": 12},
                   {"name": "present", "quick": 800, "thorough": 20000, "workers": 12},
                   # whole worlds browsed over the network: items whose error texts quote what a server sent (junk status lines)
                   {"name": "C02P", "quick": 500, "thorough": 15000, "workers": 8}],
        "rule_more": '; whole worlds browsed over the simulator (group C02P, predicate-only): every Name/String/Preview of the items, children and parents shown, with actor servers that answer with junk status lines carrying ESC/CSI/OSC/C1 bytes',
        "rule": "documents from grammars of HTML (inline styles, links, media, blockquotes, lists, headings, pre, hr, unknown tags, character-reference and raw control-character injections), Markdown, gemtext and plain text with URLs x sequences of 1..4 widths (-3..250); "
                "error text quoting hostile status lines / media types / raw control characters through style.Problem; Scrub and SetLength on raw text with C0, DEL, C1, ESC, tabs; style expressions followed by layout pipelines; "
                "C01misc: every second op takes the next of all C0 / DEL / C1 code points (then bidi, zero-width, line-separator, tag and annotation characters, which are printable for code and model alike), alone or as the introducer of a CSI / OSC / DCS / APC / PM / SOS sequence with BEL / ST terminators, at the start, in the middle, at the end and right at / before / after the cut of SetLength, inside the error texts that quote server bytes; "
                "present group: every third item document gets one such character (all in turn) spelled raw, as a decimal / hexadecimal character reference with and without ';', upper-case X, leading zeros, double-escaped, percent-encoded, or a reference beyond U+10FFFF / to a surrogate / overlong, put into every string the item shows (names, handles, summaries, content under each media type, attachment names and links, embedded parents, actors, listed replies), also exactly where a line of the op's widths ends; every fifth op adds a small note / profile that carries the next control character in all its spellings at once in text, preformatted text, code, alt / title / src / href attributes, a tag name, attachment names and links, author names (HTML, Markdown, gemtext / plain text in turn); "
                "the Safe predicate (printable, newline, complete SGR sequences only) is evaluated on every implementation output; non-trivial = the input contains a control character / a link / several widths; distinct by op content",
        "trusted": ["x/net/html and goldmark: the model renders the forest the real parser produced; the tokenizer never decodes character references inside element names (hypothesis tagsClean of the theorems)",
                    "URL.Host of a successfully dialled host contains no control characters (Actor.Name prints it)", LIBS["regexp"], LIBS["unicode"]],
        "assumptions": ["items (Post/Actor/Activity/Failure String, Preview, Name) and UI frames are covered at model level through the Clean closure theorems and differentially in C06/C07"],
    },
    "C12": {
        "timeouts_not_mine": True,
        "lean_modules": ["Props.C20b", "Props.Gen20", "Props.GenT20", "Props.Gen12", "Props.GenT12", "Props.Gen15", "Props.GenT15", "Props.Gen15h", "Props.GenT15h", "Props.Gen14s"],
        # which link a typed number opens (and what a failing or slow hook leaves of the number being typed) is what the interface model says
        "correspondence_is_failure": {"ui": True},
        "groups": [{"name": "render", "quick": 3000, "thorough": 80000}, {"name": "mediaL", "quick": 600, "thorough": 20000, "workers": 12},
                   # numbers typed in the real UI (also while a media hook is running): what the hook is started with
                   {"name": "C07", "quick": 160, "thorough": 4000, "workers": 16},
                   # whole items (the same text under several media types in one process): the numbers in the item text
                   {"name": "present", "quick": 400, "thorough": 10000, "workers": 12}],
        "rule": "documents from grammars of HTML (inline styles, links, media, blockquotes, lists, headings, pre, hr, unknown tags, character-reference and raw control-character injections), Markdown, gemtext and plain text with URLs x sequences of 1..4 widths (-3..250); "
                "every link / image / frame gets a unique label text and target from the generator; predicates on the implementation's output: the superscript number printed after a label opens (links[k-1]) that label's own target, and the numbers 1..N are all shown; non-trivial = the document has links; distinct by op content; "
                "mediaL group: posts and actors with body links and attachment / icon / image lists, histories of SelectLink(k) for k in -1..6 (and Media, ProfilePic, Banner) on the real items, targets compared with the Link model; "
                "two thirds of the group are whole items (posts, actors, also wrapped in Create / Announce / Like / Dislike): a body in HTML, Markdown (inline, reference, collapsed, shortcut, autolink, bare URL, image, linked image, links inside emphasis, code spans and code blocks that are no links, empty destinations), gemtext or plain text with 0..5, 9..13 or about 100 numbered elements, anchors without / with empty / blank / control-only href before real links, the same target under several numbers, hostile hrefs, label texts with digits, next to 1..4 attachments of every kind (named, unnamed, unusable link, wrong key, spoiled list, single object); "
                "the model works the body links out from the parsed body; the item's String at two widths is read: the number after each generator label must open (SelectLink on the real item) that label's target, the numbers shown must be exactly 1..N (N = body links + attachments), numbers outside open nothing; half of these ops type the numbers (also 007, 0, over-long) and o / p / b through the real ui.Update on a page showing the item and read the link off the started hook program",
        "trusted": ["x/net/html and goldmark (forest shipped with the op)", LIBS["regexp"]],
        "assumptions": ["adjacent numbers without any text between them (two empty anchors in a row) are visually ambiguous; the property is stated on the numbers as emitted (ghost labels), see DESIGN.md",
                        "text that carries superscript digits of its own next to a link cannot be told from a number: such items are compared with the model only",
                        "an attachment whose name has the wrong type (or that has neither a name nor a usable link) is shown as an error line without a number while the following attachment skips that number (DESIGN.md section 6 no. 12): such items are generated, the count of the numbers is judged on them only with VERIF_C12_UNNUMBERED_ATTACHMENT=1"],
    },
    "C14": {
        "timeouts_not_mine": True,
        "lean_modules": ["Props.Cells", "Props.Clean", "Props.C01p", "Props.Gen14", "Props.Gen13", "Props.GenT13", "Props.Gen15h", "Props.GenT15h", "Props.Gen14s"],
        "groups": [{"name": "C14", "quick": 3000, "thorough": 80000}, {"name": "render", "quick": 1200, "thorough": 30000},
                   # the same under configured colours (what style.Color/Red/Code/Highlight read is the configuration, not a constant)
                   {"name": "C14", "quick": 1500, "thorough": 40000, "workers": 6, "config": C14_COLOURS},
                   {"name": "render", "quick": 600, "thorough": 15000, "workers": 6, "config": C14_COLOURS},
                   {"name": "presentP", "quick": 600, "thorough": 20000, "workers": 12},
                   # whole frames of the real interface (status line, cut and centred item texts): frames_neutral
                   {"name": "C07", "quick": 96, "thorough": 2500, "workers": 16},
                   # whole worlds browsed over the network: items whose error texts quote what a server sent (junk status lines)
                   {"name": "C02P", "quick": 500, "thorough": 15000, "workers": 8}],
        "rule_more": '; whole worlds browsed over the simulator (group C02P, predicate-only), actor servers answering with junk status lines',
        "rule": "style expressions (nesting and concatenation of the eight style functions over texts with newlines at the start, at the end and doubled, blanks of every unicode.IsSpace kind, wide, combining and invisible characters, sentences long enough to wrap; a third of them at least three levels deep around already styled concatenations that span line breaks) "
                "optionally followed by 0..3 (one in ten: 4..7) layout steps (wrap, dumbwrap, pad, indent with seven prefixes incl. a styled one, snip to heights 0..10, quote, header of levels 0..7, bullet, code block, link and linkblock with numbers of 1..10 digits, a further style function around the laid-out text) at widths 1..24 and 0, 40..250; "
                "run under the default colours and under a configuration with four other colours (the colours in force travel with the op); a terminal state machine is run on the implementation's output: per-character attributes must equal the enclosing style functions, and no attribute may be active at a line break or at the end; "
                "plus the render group (incl. two or three Markup values rendered alternately and long width histories), item texts, and the frames of the real interface driven by key sequences; "
                "non-trivial = some character is styled; distinct by op content",
        "trusted": ["the terminal model: ESC[0m / ESC[m clear, any other SGR parameter string is added", LIBS["regexp"]],
        "assumptions": ["input text is ESC-free (it went through Scrub, C01)"],
    },
    "C02": {
        "groups": [{"name": "C02", "quick": 1200, "thorough": 40000, "workers": 12}],
        "rule_more": "; worlds with an upper post on another host that carries no id and inlines an author whose id names the reply's host; notes without id; every document fetched again after browsing; everything shown judged for safe and neutral output",
        "rule": "multi-host worlds over five loopback TLS hosts plus a sixth authority that is the first host's address under another port: two actors on different hosts (or on authorities that differ by port only), a forged actor document, a second document on the victim's own host claiming the victim's id, the attacker's own actor and note under the very paths the victim's have, a thread of notes with replies, a replies collection and a paged outbox, where every reference is chosen among URL, embedded copy (stamped by the embedding host; with its id, with its id spelled differently, without any id), stub of <= 2 keys, redirect; "
                "URLs and ids are sometimes spelled with userinfo, an upper-case or http scheme, a fragment, the host's address under an unused port or without a port, relative to the referring object (/path, name, ./name, ../dir/name, //host/path, ?query, the empty string, '.', '#top') or with dot segments; actor / inReplyTo are sometimes written as lists of one or two, attributedTo lists and collection entries also hold null, numbers, booleans, nested lists, empty objects, bare notes, unparsable and non-https URLs; ids sometimes lie about their host; authors/actors/reply targets are sometimes impostors; "
                "one world in six is a collection opened directly whose pages live at URLs of their own on several hosts (chains that end, that come back to themselves / the first page / the root / the page before, next behind a redirect or on another host, pages with, without or with a foreign id, first on pages and next on roots, runs of empty pages, sizes that lie); start object chosen among all; the first harvest (0..20 items) is sometimes continued by 1..3 more on the continuation it returned (amounts 0..5); "
                "compared: the whole item tree (kinds, ids, names = serving-host stamps, creators, parents, listed children of every round); the provenance predicate compares the authority url.Parse reads out of an item's id with the host that stamped its JSON; non-trivial = at least one child or ancestor is listed; distinct by op content",
        "trusted": ["crypto/tls, net; url.Parse (String/Host) as an oracle table; json decoding as an oracle table",
                    "url.ResolveReference as an oracle table: every id of the world x every string in a reference position, listed where the result is not the reference itself (model parameter `World.resolve`)",
                    "goroutine fan-out in the constructors is an order-preserving map"],
        "assumptions": ["FetchURL semantics are those of the jtp model (C03), composed into the world by the driver"],
        "lean_modules": ["Props.Gen02", "Props.GenT02", "Props.Gen02n", "Props.GenT02n", "Props.Gen02p", "Props.GenT02p"],
        "shrink_budget": 3,
    },
    "C06": {
        "lean_modules": ["Props.Gen15h", "Props.GenT15h"],
        "groups": [{"name": "C06", "quick": 1500, "thorough": 40000, "workers": 12}, {"name": "renderdeep", "quick": 192, "thorough": 8000, "workers": 12},
                   {"name": "render", "quick": 800, "thorough": 20000}, {"name": "presentP", "quick": 800, "thorough": 20000, "workers": 12},
                   # asking for an item's children in several steps (continuations, offsets into a page): every step returns
                   {"name": "C10P", "quick": 800, "thorough": 20000, "workers": 8}],
        "rule_more": '; group C10P: the paging scripts (continuations, offsets into a page, old continuations asked again) judged by returning normally',
        "rule": "JSON objects with the ActivityStreams keys filled with right- and wrong-typed values (types from all kinds incl. Tombstone/bogus, markup bodies in the four media types incl. 10..70 nested blockquotes, huge/negative/fractional numbers, malformed URLs and timestamps, embedded parents up to depth 3, collections with bogus entries, dead references to a closed port), built as post/actor/activity/any and then every Tangible method called at widths -50..300 and link numbers 0, +-1, 2^31, +-2^63; deep nesting of every block/inline tag to depth 5..65 at widths -1..80; "
                "one renderdeep case in three is wide rather than deep (predicate-only): single lines of 10^4..10^5 characters in all four markups (styled stretches up to 14 000 characters), 60..3000 siblings (paragraphs, line breaks, list items, bold words, links, images, rules, headings, table cells, gemtext and plain-text lines), attribute values of 5 000..50 000 characters (href, src, alt, title, unknown attributes, 300 attributes on one element), "
                "ordinary documents at widths 300..4096, 65535, 2^31-1, 2^31, 2^32+7, 2^62, 2^63-1, -80, -65535, -2^31, -2^63+70000 (documents with <pre> or <hr>, whose output is as wide as the width: 300..2000), inline nesting of 50..500 levels around a few characters, <pre> / fenced blocks of 10..100 short lines with lines x width <= 8000; "
                "sizes stay inside what the real code renders in about a second (see the recorded finding and the switch genReportedDefects in gentext.go for what lies beyond); "
                "a panic or a timeout (10 s) of the real code is an output; non-trivial = at least three strings were produced; distinct by op content",
        "trusted": ["x/net/html, goldmark (time and memory of the external parsers are observed, not proved)", "the Go runtime (wall-clock, memory)"],
        "assumptions": ["pubfuzz ops are predicate-only: the item-level String/Preview are not recomputed by the model; their building blocks (renderers, style, ansi, selection) are modelled and proved"],
        "shrink_budget": 3,
    },
    "C07": {
        "lean_modules": ["Props.Facts07", "Props.Gen07", "Props.GenT07", "Props.Gen07s", "Props.GenT07s"],
        # the model of Update *is* the keymap the property speaks of: a state that differs from
        # it after a key sequence is a key that did not do what the keymap says
        "correspondence_is_failure": {"ui": True},
        "groups": [{"name": "C07", "quick": 240, "thorough": 12000, "workers": 12},
                   # the same worlds in processes started with other preload amounts (the default is 5):
                   # nothing preloaded, one, two, more than any thread or listing holds
                   {"name": "C07", "quick": 24, "thorough": 1500, "workers": 2, "config": "[network]\npreload_amount = 0\n"},
                   {"name": "C07", "quick": 24, "thorough": 1500, "workers": 2, "config": "[network]\npreload_amount = 1\n"},
                   {"name": "C07", "quick": 24, "thorough": 1500, "workers": 2, "config": "[network]\npreload_amount = 2\n"},
                   {"name": "C07", "quick": 24, "thorough": 1500, "workers": 2, "config": "[network]\npreload_amount = 12\ncache_size = 3\n"}],
        "rule_more": '; a third of the sessions run with a hook that names %mimetype/%subtype/%supertype, media links carry strings that are no media type',
        "rule": "worlds over the TLS simulator: a thread of 1..8 notes (plain-text bodies containing URLs of other objects, so numbered links can be opened), a paged reply collection under the leaf (incl. an empty first page, comments answering another post, a missing collection), two actors on different hosts, multi-author posts (a foreign-host author turns the post into an error item), a paged outbox of 0..13 activities (some by another actor), an empty collection, a 404; started with Subcommand(open, <start>) and driven by 3..27 key tokens: j k g h l space c r a o p b, numbers followed by . / Enter / Esc / Backspace / another key (0, over-long numbers), :open <url>, :feed, bogus commands, arbitrary bytes, terminal resizes between keys and in the middle of typing (often one dimension only); "
                "added by the generator review: raw bytes that are not UTF-8 (BYTES tokens, also as whole command lines and after :open / :feed), numbers with leading zeros, with more digits than there are links, at the edges of int32/int64/uint64 and followed by every kind of key, notes with 9..13 links (two-digit numbers name links), "
                "Escape / Backspace at a random point of a partially typed command or number with the rest typed all the same, :open and :feed with odd arguments (empty, spaces only, leading/trailing space, other letter case, 150..550 characters, fragment, query, other scheme, no scheme, @ and ! and file forms, non-ASCII, NUL, two commands in one token), "
                "one session in 14 of 100..220 tokens plus a history 8..37 pages deep walked to both ends, HELD tokens (the simulator holds every request, a starter :open / :feed / N. is typed, and while its page load is in flight - reported by the harness per token - every kind of key token and resizes arrive, which the keymap says do nothing), "
                "HELDS tokens (the same while only the surroundings of a page are loading: every key but j/k and page loads, compared with the same keys typed one by one), terminals of 1..8 columns or 1..3 rows from the start or by resize with every kind of status line and the loading frame drawn on them, "
                "one world in 8 with items of 120..420 lines at the ends and the centre of the thread, the interface started with `feed <name>` (an unknown feed or subcommand must be refused before any page exists), media hooks that fail silently / with two lines / with 400 long lines on both streams / with control bytes, escape sequences and invalid UTF-8 / succeed with much output, "
                "and the same ops in processes started with preload_amount 0, 1, 2 and 12 (cache_size 3); "
                "after every token (once loads have settled, detected through the shim) compared: mode, buffer, highlighted item, the window of items around the cursor, presence of frontier/children, base point, the number of history steps possible backwards and forwards; non-trivial = at least three tokens; distinct by op content",
        "trusted": ["crypto/tls, net; the Go scheduler (the check waits for quiescence; interleavings are C08's subject)",
                    "url/json oracle tables as in C02; GetMarkup's link list for every body as an oracle table (numbering itself is C12)",
                    "webfinger handles, local files and configured feeds are outside the generated worlds (modelled as error items / 'not a known feed')"],
        "assumptions": ["Config.Safe (C19); no media links in the generated worlds (o/p/b are no-ops there; argv construction is C20)"],
        "shrink_budget": 2,
    },
    "C08": {
        "lean_modules": ["Props.Facts17"],
        "groups": [{"name": "C08", "quick": 96, "thorough": 3000, "workers": 12},
                   # what the fan-out calls concurrently (renderers, accessors), under the race detector
                   {"name": "renderpar", "quick": 24, "thorough": 600, "workers": 4},
                   {"name": "C17par", "quick": 16, "thorough": 400, "workers": 4}],
        "race": True,
        "level": "proof",
        "rule": "the UI worlds of C07 driven the way main.go drives the UI: one goroutine per key byte (30..90 navigation, selection, :open and :feed tokens, also failing :open and unknown commands), 1..3 pollers resizing every 0.3..0.6 ms (one run in three also to 1..5 columns / 2..3 rows and 200x70), simulator latencies of 0..8 ms drawn per request, in one run in three a latency bound redrawn every 0.1..1 ms from 0..30 ms, "
                "keys in bursts without any gap / with rare long gaps / with a gap after every third, feeds of the op itself (live outboxes and threads, an empty one, two dead addresses, a dead address next to live ones, an unknown name), the interface started by open or by feed, one response in 12 cut short (EOF or reset at a random offset, reset before the first byte) or dribbling in byte by byte, "
                "media hooks that sleep 2..20 ms, exit at once with success or failure, fail with a line or with 200 KB of output, read their input and exit, or cannot be started at all; all under the Go race detector; observed: data-race reports, overlapping frame emissions, frames whose height differs from the state's height at drawing time, key handlers that never return (20 s watchdog); "
                "non-trivial = at least one frame was emitted; distinct by op content",
        "trusted": ["extract/ (go/ast): reports the lock/access skeleton of ui/ui.go and the goroutine fan-outs faithfully; paths through a method are sub-sequences of its flattened skeleton with the same lock state because lock operations occur only at nesting depth 0 (checked)",
                    "the Go memory model, sync.Mutex, sync.WaitGroup; golang-lru and singleflight are internally synchronised",
                    "the race detector and the stress only validate the extraction; they are not the proof"],
        "assumptions": ["commands succeed (Subcommand deliberately keeps the mutex on error so that main can clean up)"],
        "shrink_budget": 0,
    },
    "C09": {
        "lean_modules": ["Props.Gen09", "Props.GenT09"],
        # what a page lists after the reader moved about is what the interface model says it lists
        "correspondence_is_failure": {"ui": True},
        "groups": [{"name": "C02", "quick": 1200, "thorough": 40000, "workers": 12},
                   # listings as the interface shows them: pages loaded in the background while the reader moves on
                   {"name": "C07", "quick": 72, "thorough": 2000, "workers": 12}],
        "rule_more": '; the author predicate also judges the post an activity is about',
        "rule": "the same multi-host worlds as C02 (outboxes and reply collections mixing legitimate entries with other-actor activities, other-parent comments, foreign-host authors, missing ids/actors/reply targets, embedded vs referenced, failing fetches; actors and reply targets that are the owner's in another spelling (userinfo, fragment, scheme), under the same path on another host, on the same address under another port, a same-host document claiming the owner's id; actor / inReplyTo written as lists; entries that are no references or no activities at all: null, numbers, nested lists, bare notes; listings continued over several requests); "
                "compared: per-position classification of every listed entry; predicates on the implementation's output: a listed activity's actor id equals the owner's id, a listed reply's parent id equals the post's id, authors share the post's host (the authority url.Parse reads out of the two ids); non-trivial = at least one child or ancestor is listed; distinct by op content",
        "trusted": ["as C02", "extract/go2lean14.go and Model/GoPub.lean (translation of the listing filters)",
                    "extract/go2lean22.go and Model/GoNewitem.lean (translation of the constructors of the items)"],
        "assumptions": [],
        "lean_modules": ["Props.Gen02", "Props.GenT02", "Props.Gen09", "Props.GenT09", "Props.Gen02n", "Props.GenT02n", "Props.Gen02p", "Props.GenT02p"],
        "shrink_budget": 3,
    },
    "C03": {
        "lean_modules": ["Props.Facts03", "Props.Gen03m", "Props.GenT03m", "Props.Gen03", "Props.GenT03", "Props.Gen04"],
        "groups": [{"name": "C03", "quick": 1200, "thorough": 40000, "workers": 8},
                   # the same worlds and sequences in processes whose cache holds 1, 2, 3 and 5 entries: eviction and re-fetch
                   {"name": "C03", "quick": 96, "thorough": 3000, "workers": 2, "config": "[network]\ncache_size = 1\n"},
                   {"name": "C03", "quick": 96, "thorough": 3000, "workers": 2, "config": "[network]\ncache_size = 2\n"},
                   {"name": "C03", "quick": 96, "thorough": 3000, "workers": 2, "config": "[network]\ncache_size = 3\n"},
                   {"name": "C03", "quick": 96, "thorough": 3000, "workers": 2, "config": "[network]\ncache_size = 5\n"},
                   # several askers of one URL at once, document fetches and webfinger lookups mixed
                   {"name": "C03same", "quick": 48, "thorough": 1500, "workers": 8, "config": "[network]\ntimeout_seconds = 1\n"},
                   # whole worlds browsed (items built from the documents the cache hands out), then every document fetched again
                   {"name": "C02", "quick": 300, "thorough": 10000, "workers": 8},
                   # items built twice from one decoded document: the document is afterwards what it was
                   {"name": "rebuild", "quick": 400, "thorough": 15000, "workers": 12}],
        "rule_more": '; whole worlds browsed and every document then fetched again (the cache hands out the object items were built from); op rebuild: an item built twice from one decoded document whose lists start with null / the public pseudo-collection / empty objects',
        "rule": "status / Content-Type / Location lines and header blocks from a grammar with mutations (case, blanks, CR, missing newline, odd versions and codes); worlds of 1..4 documents and 0..22 redirects over five loopback TLS hosts plus a host reached by name, one by IPv6 literal and one on the default port "
                "(relative ('x', './x', '../d/x', '//host/x') and cross-host Locations, Locations with fragments, non-https hops, missing/unparsable Location, two Location lines, a Location on a 2xx/4xx response, self loops and cycles, every 3xx code from 300 to 310 and 399, status codes next to 200-203, "
                "odd status lines, content types, bodies incl. nesting beyond the decoder's limit, two values, duplicate keys, a BOM) under redirect budgets 0, 1, 2, 3, 5 and 20 with chains of budget-1, budget, budget+1 and budget+2 hops fetched cold, with the final document cached, with the last redirect cached and with every link cached; "
                "x sequences of 1..17 fetches drawn with repeats (cache warm-up, eviction under cache_size 1, 2, 3, 5 and re-fetch; the same document under other spellings of its URL: fragment, upper-case scheme); "
                "compared: result class, source, stamp, and the exact request sequence the simulator saw; non-trivial = at least two connections were opened; distinct by op content",
        "trusted": ["crypto/tls, net (the simulator is reached through the unmodified jtp.Get; CA via SSL_CERT_FILE)",
                    "url.Parse / ResolveReference and json.Decoder as oracle tables computed by the real libraries per world (model parameters `Env.resolve`, `Env.decode`)",
                    "golang-lru eviction order as modelled (`Cache.get`/`Cache.add`); the transparency theorem does not depend on it (any sound cache)",
                    LIBS["regexp"]],
        "assumptions": ["servers unchanged between fetches (the `Env` is fixed)"],
    },
    "C04": {
        "lean_modules": ["Props.Facts04", "Props.Facts04b", "Props.Gen04", "Props.GenT04", "Props.Gen04w", "Props.GenT04w"],
        "groups": [{"name": "C04", "quick": 1200, "thorough": 30000, "workers": 8},
                   # redirect worlds (non-https hops, relative and cross-host Locations): what goes on the wire there
                   {"name": "C03", "quick": 400, "thorough": 10000, "workers": 8},
                   # every request sent while whole worlds are browsed (identifiers with fragments, relative references, redirects)
                   {"name": "C02", "quick": 400, "thorough": 12000, "workers": 8},
                   # several webfinger lookups in flight at once, for accounts on different hosts (a feed of @user@host sources opening)
                   {"name": "C04par", "quick": 120, "thorough": 4000, "workers": 8}],
        "rule_more": '; group C04par: two to six webfinger lookups for accounts on different hosts in flight together (started 0..4 ms apart, servers delayed up to 10 ms): every request compared with the query of the host its connection arrived at',
        "rule": "fetches of URLs with hostile paths and queries (raw and encoded CR/LF and LF alone, a whole second request encoded in path or query, spaces, %00, fragments, escaped delimiters %2F %3F %23 %25, broken escapes, non-ASCII, brackets and braces, dot segments, request targets of 1.5 kB to 280 kB), "
                "userinfo of every shape (also carrying encoded CR/LF or a header name), upper-case scheme, non-https and look-alike schemes, scheme-less references, authorities spelled other ways (a name in other letter case or with a trailing dot, IPv6 literals in two spellings, with a zone, IPv4-mapped; the default port absent, written, empty, with a leading zero; a wrong port; IDN and percent-encoded names), "
                "redirects to plaintext (absolute, scheme-relative, upper-case) and to Locations carrying CR/LF, userinfo or a tab, a plaintext canary listener; webfinger lookups with hostile account and domain parts (CR, LF, CR/LF raw and encoded, tabs, NUL, spaces, '#', '?', userinfo, unresolvable names, 4.8 kB accounts, the name / IPv6 / default-port hosts); "
                "the simulator keeps reading for 12 ms after the blank line of every request, so bytes sent after the head are part of the compared record; "
                "compared: result, the listener each connection arrived at and the raw bytes of every connection; non-trivial = at least one connection reached the simulator; distinct by op content",
        "trusted": ["crypto/tls, net, DNS (a TLS dial succeeds only for a syntactically valid host name or IP literal)",
                    "url.Parse rejects ASCII control bytes, so RequestURI()/Host of a parsed URL are CR/LF-free (evaluated on every generated URL through the request comparison)",
                    "url.Values.Encode as an oracle for the webfinger query (the Lean transcription of SplitN / Values.Encode / QueryEscape that the translated ResolveWebfinger targets is compared with it on every webfinger op: query_is_the_transcribed_encoding)"],
        "assumptions": ["TLS, DNS and socket behaviour are not modelled (partial)"],
        "shrink_budget": 4,
    },
    "C05": {
        "lean_modules": ["Props.Facts04", "Props.Gen04", "Props.GenT04", "Props.Gen11n"],
        "groups": [{"name": "C05", "quick": 160, "thorough": 6000, "workers": 16, "config": "[network]\ntimeout_seconds = 1\n"},
                   # the same faults under another timeout: the bounds are stated in the configured value, and a
                   # response that needs 1.0..1.4 s is a document there
                   {"name": "C05", "quick": 48, "thorough": 1600, "workers": 16, "config": "[network]\ntimeout_seconds = 3\n"},
                   # faults on the routes the pub layer fetches on its own (authors, parents, collection pages)
                   {"name": "C05p", "quick": 240, "thorough": 8000, "workers": 8, "config": "[network]\ntimeout_seconds = 1\n"},
                   # whole items over worlds with unreachable and failing secondary fetches (replies, authors): an error item, never a crash
                   {"name": "C07", "quick": 96, "thorough": 2000, "workers": 16},
                   {"name": "C05x", "quick": 0, "thorough": 600, "workers": 1, "config": "[network]\ntimeout_seconds = 1\n"}],
        "replay_config": "[network]\ntimeout_seconds = 1\n",
        "level": "fault_enumeration",
        "rule": "a document behind 0..3 redirect hops over the TLS simulator, one hop carrying a fault: response cut at a random byte or at a structural boundary (status line, CRLF, blank line, just before the closing brace, last byte) followed by EOF, TCP reset or silence; cuts placed relative to the end of the Location value as served (one character short of it, where a decoy document lives; exactly at its end; after the CR); total silence after the handshake; trickle from the first byte (timeout/10 per byte); headers at once and the rest dripping every timeout/4 (slowtail); "
                "a response that arrives in pieces over 35-45 % of the timeout (a document); a chain ending at a closed port; host faults: TCP accept without TLS handshake, a handshake that stops after the first bytes of the ServerHello, a plaintext answer instead of it, close or reset right after accept; "
                "x sequences: the faulted fetch alone, twice, again after every fault has been taken away ('@heal'), mixed with fetches of inner links of the chain; 3..9 fetches of disjoint chains at once, most of them against stalled, cut or dripping servers; responses of 70 kB..8 MB in the body, in one header line, in the reason phrase, in a media type, in blanks before or after the document, cut near the end, and a server flooding 1..24 MB of one endless line; "
                "process timeouts 1 s and 3 s; group C05p: the multi-host object worlds of C02 with 1..3 routes cut (anywhere, at the header/body boundary, one or two bytes before the end), stalled or dripping, walked through pub.New, Children and Parents; "
                "compared: result class with the model on the bytes the client can have received, and wall-clock <= (connections+1)*2*timeout + 1.5 s per fetch; non-trivial = at least two connections; distinct by op content",
        "trusted": ["net.Conn honours SetDeadline; json.Decoder succeeds only on a complete top-level value (validated by the cut-point enumeration)",
                    "crypto/tls, the Go scheduler and wall-clock time (observed, not proved)"],
        "assumptions": ["timeout_seconds > 0 (0 means no timeout, as for net.Dialer)"],
        "shrink_budget": 0,
    },
    "C10": {
        "lean_modules": ["Props.Facts10", "Props.Gen10", "Props.GenT10"],
        "groups": [{"name": "C10", "quick": 4000, "thorough": 150000},
                   # remote pages over the simulator (pages named by URL, on other hosts, URLs that differ in letter case only,
                   # cyclic chains, relative `next`, continued harvests; see the rule of C02)
                   {"name": "C02", "quick": 960, "thorough": 30000, "workers": 12}],
        "rule_more": "; a third of the scripts reach the collection through its owner's key (getCollection under outbox/replies/comments), roots with and without totalItems",
        "rule": "page chains of 0..18 embedded pages (Collection/OrderedCollection, items on the root and/or pages, empty pages with varying bias and layouts with runs of exactly 1..4 empty pages between full ones (the root counting), absent/null/single-value items, the key of the other flavour (items vs orderedItems) present as a decoy, totalItems of every JSON type on roots and pages, first on pages and next on roots, wrong page types, chains ending in a non-https reference, a non-object, a non-collection or an object that would need re-fetching) x request-size sequences (one large request, constant small requests, random sizes incl. 0, sizes 0 / 1 / total-1 / total / total+1 / 2*total) x start offsets x scripts in which the latest continuation is asked again and older continuations are asked after newer ones exist; "
                "non-trivial = at least three pages visited; distinct by op content",
        "trusted": ["encoding/json decoding (typed tree shipped to the model)",
                    "remote pages: in the paging group every `next` that would need the network fails deterministically (non-https / non-object); remote and cyclic chains (next -> itself, -> first page, -> root, A -> B -> A, across hosts and redirects) run in the C02 group of this check over the TLS simulator, with `listing_is_the_pages_items_in_order` evaluated on every round of a continued harvest"],
        "assumptions": ["amount + startingPoint < 2^64 (Go uint)"],
    },
    "C11": {
        # the Splicer model is the merge the property describes (take_is_trace, take_exactly_once):
        # a delivery that differs from it is an item out of place
        "correspondence_is_failure": {"splice": True},
        "lean_modules": ["Props.Facts11", "Props.Gen11", "Props.GenT11", "Props.Gen11n"],
        "groups": [{"name": "C11", "quick": 4000, "thorough": 150000},
                   # feeds over simulator-served actors and collections, through splicer.NewSplicer and the UI
                   {"name": "C07", "quick": 128, "thorough": 4000, "workers": 16},
                   # the order of a feed's sources as the configuration file lists them is the order the splicer is given
                   {"name": "C19", "quick": 1500, "thorough": 40000},
                   # feeds built by the program's own constructor over served collections, one source busy (35..70 items)
                   {"name": "C11net", "quick": 120, "thorough": 4000, "workers": 8}],
        "rule_more": '; configuration files with [feeds] whose sources are unsorted and repeated: the parsed feeds keep the listed order (group C19)',
        "rule": "0..4 sources of 0..7 items, one of them sometimes 15..44 items long (newest-first with ties, or unsorted; missing timestamps; empty and nil sources; the same item listed by two sources) over exact-delivery synthetic containers, flat or paged like a collection (every page a container of its own, continuation = page + offset); timestamp classes: whole seconds, differences below one second, equal instants written in different zones, far past / far future around and before the zero time, every source carrying the same few instants; x scripts of 1..6 harvests (sizes 0..6 and 1 / total-1 / total / total+1, start offsets, 'again' = the same position asked twice, 'old' = an earlier continuation asked after newer ones exist, 'par' = four concurrent askers); "
                "non-trivial = at least two sources and three delivered items; distinct by op content",
        "trusted": ["slice aliasing in Splicer.clone (shared backing arrays) is modelled by value semantics; 'again' steps re-harvest old positions to exercise it",
                    "containers deliver exactly the requested amount unless exhausted (C10 theorem harvest_cont)"],
        "assumptions": [],
    },
    "C13": {
        "lean_modules": ["Props.C13s", "Props.Gen13", "Props.GenT13"],
        "groups": [{"name": "C13", "quick": 6000, "thorough": 200000},
                   # the layout functions called from several goroutines at once (loaders render while frames are drawn)
                   {"name": "C13par", "quick": 60, "thorough": 3000, "workers": 4},
                   {"name": "C13x", "quick": 0, "thorough": 6, "workers": 1}, {"name": "unicodeall", "quick": 0, "thorough": 1, "workers": 1},
                   # the layout functions as the renderers call them: whole documents laid out at sequences of widths
                   {"name": "render", "quick": 800, "thorough": 20000}],
        "rule_more": '; whole documents laid out at sequences of widths by the four renderers (group render)',
        "rule": "styled text from a cell grammar (words, runs of all IsSpace kinds, newlines, nested SGR attributes; 1 in 5 a hostile ESC/[/m string) x widths -3..250; "
                "one case in six from the edges: one text wrapped at every width from 0 past its longest line (or at the widths around its line lengths and 80/120/200), paragraphs of 20..200 words with over-long words at 40..500 columns and through the wrap-then-snip pipeline, "
                "a wide / combining / invisible / blank-looking (IsSpace and not) character at position w-1, w or w+1, snip with heights n-2..n+1, 0, -1, 1000, 65536 and widths equal to a line's length, one off, 0, -1, 65535, 2^31 over texts with blank lines at the end and in between and five ellipses, "
                "pad at the exact line lengths, one off, 0, -1, -2^31, -2^63+4096, 300..2000 over empty / newline-only / newline-terminated texts, indent of such texts with twelve prefixes (styled, blank, long, 'm', '['), setlength at the exact length, one off, -1, 200..65535, apply with odd style strings over cells styled up to nine levels deep; "
                "non-trivial = some input line is longer than the width (wrap/dumbwrap/pad actually act) / more lines than the height (snip) / a styled cell is present (expand); distinct by op content",
        "trusted": [LIBS["regexp"], LIBS["unicode"]],
        "assumptions": ["model strings are sequences of Unicode scalar values (valid UTF-8 in Go)",
                        "the width theorems are about canonical styled text (what servitor's own style layer produces); hostile strings are covered by the correspondence check only"],
    },
    "C17": {
        "lean_modules": ["Props.Gen17", "Props.Facts17", "Props.GenT17", "Props.Gen03m", "Props.GenT03m", "Props.Gen17m"],
        "groups": [{"name": "C17", "quick": 8000, "thorough": 300000},
                   # the floating-point operations the translated GetNumber is interpreted with, against Go's own
                   {"name": "F64", "quick": 4000, "thorough": 400000},
                   # the accessors called from many goroutines at once, as the constructors of a page's items do
                   {"name": "C17par", "quick": 40, "thorough": 2000, "workers": 4},
                   # documents as they arrive: fetched, decoded by jtp.Get, refused as a whole when a number does not fit
                   {"name": "C03", "quick": 300, "thorough": 8000, "workers": 4},
                   # the decoded document after items were built from it: value for value what the accessors were given
                   {"name": "rebuild", "quick": 600, "thorough": 20000, "workers": 12}],
        "rule_more": '; op rebuild: the decoded document after items were built from it twice (value for value what it was), lists starting with null / public pseudo-collection / empty objects / numbers',
        "rule": "JSON documents with null/bool/number/string/array/object under keys k, m, z (numbers from two edge pools around 0, +-1, signed zeros, subnormals, 2^31, 2^32, 2^53, 2^63, 2^64 and their neighbouring doubles, zero fractions, cancelling exponents, over-long digit strings, random bit patterns and integers around powers of two; strings with control characters, timestamps, URLs, media types) x every accessor x present/absent keys; "
                "half of the cases choose the accessor first and file under the key a value of the vocabulary it parses (RFC 3339 corners: leap second, offsets to +-24:00, lower-case t/z, fraction digits with '.' and ',', years 0000..10000, impossible dates, padding; well-formed timestamps and token/token media types drawn field by field; about 120 URLs that parse oddly; the four renderable media types and their near misses for GetMarkup), "
                "then possibly damage it: C0/C1/ESC/bidi/zero-width characters at one to three places, only-removed characters, case changes, blank padding, tails up to 100 000 characters, doubling; strings spelled with \\u escapes, surrogate pairs and lone surrogates; natural-language maps (tags empty, und, upper case, malformed), @value objects, nesting to depth 100, arrays and objects of thousands of members; "
                "families of look-alike keys (letter case, blanks, suffix Map, @value, look-alike letters, the empty key) some of them in the document and any of them asked for; documents that are null, lists, scalars, truncated, with duplicate keys or trailing data, and documents whose bytes are not UTF-8 (sent as hex); "
                "a third of the cases call other accessors on the document first; a parsed time is compared as a value (instant, nanoseconds, offset) and GetMarkup by what the chosen renderer renders at two widths against the four renderers constructed directly; "
                "non-trivial = the key is present in the document; distinct by op content",
        "trusted": ["encoding/json decoding (the model starts from the decoded value, shipped as a typed tree with IEEE bit patterns)",
                    "time.Parse(RFC3339) and url.Parse as oracle tables computed by the real libraries per case (model parameters `Libs`)",
                    "Go's uint64(float64) conversion for in-range integral values is exact (language definition)"],
        "assumptions": ["JSON cannot produce NaN or infinities (encoding/json rejects out-of-range literals)"],
    },
    "C18": {
        "lean_modules": ["Props.Gen18", "Props.GenT18"],
        "correspondence_is_failure": {"history": True, "feed": True},
        "race": True,
        "groups": [{"name": "C18", "quick": 4000, "thorough": 100000},
                   {"name": "C18x", "quick": 6, "thorough": 9, "workers": 1},
                   # the feed of a page as the interface uses it: every access under the mutex of the interface (race detector on)
                   {"name": "C08", "quick": 36, "thorough": 600, "workers": 12}],
        "rule": "random history sequences (add/back/forward, length 0..200) and feed sequences (create or create-list, then append/prepend/up/down/center, length 0..30) observed after every step "
                "(IsEmpty, Current / Current, and Contains, IsParent, IsChild, Get over offsets -4..4); plus all history sequences up to the length bound and all feed sequences up to bound-2 (group C18x); "
                "one case in four is structured: deep histories (20..520 pages, then runs of back/forward to and past both ends, new pages at the very start, jitter; every step observed), huge ones (runs of up to 4096 adds and 70 000 moves observed at the end of the run), the same one to three pages opened repeatedly; "
                "feeds with batches of 0..70 000 items in one call and walks of up to 100 000 moves, hundreds of alternating small (also empty) batches and single moves, step-by-step tours to both ends and back to the centre from everywhere, items with one to three distinct labels (also the identical item several times); "
                "after each step of the large shapes Contains/IsParent/IsChild/Get are probed at offsets aimed just inside and outside both ends, around the opened item, and at +-2^15..+-2^62; "
                "non-trivial = at least two adds and one move (history) / at least two steps (feed); distinct by op content",
        "trusted": ["Go slice aliasing in History.Add (append on a re-sliced array) is modelled by value semantics; interleaved back/add/forward sequences exercise it"],
        "assumptions": ["feed.CreateEmpty is dead code on the tree and outside the property (create / create-list are the documented constructors)",
                        "Go int overflow of feed bounds is out of scope"],
    },
    "C19": {
        "lean_modules": ["Props.Facts19", "Props.Facts19b", "Props.Gen19", "Props.Gen19h", "Props.GenT19h"],
        "groups": [{"name": "C19", "quick": 3000, "thorough": 60000},
                   {"name": "C19x", "quick": 4000, "thorough": 16777216, "workers": 16},
                   # processes started with the smallest accepted sizes, then used: fetches under cache_size = 1 and 2
                   {"name": "C03", "quick": 120, "thorough": 4000, "workers": 4, "config": "[network]\ncache_size = 1\ntimeout_seconds = 9223372036\n"},
                   {"name": "C03", "quick": 120, "thorough": 4000, "workers": 4, "config": "[network]\ncache_size = 2\npreload_amount = 0\ntimeout_seconds = 0\n"},
                   # ... and the interface under the largest accepted sizes, and with nothing preloaded
                   {"name": "C07", "quick": 24, "thorough": 400, "workers": 8, "config": "[network]\npreload_amount = 2147483647\ncache_size = 9223372036854775807\n"},
                   {"name": "C07", "quick": 24, "thorough": 400, "workers": 8, "config": "[network]\npreload_amount = 0\ncache_size = 1\n"},
                   # hooks that name the media type are accepted: links of every kind (typed, untyped, with something that is
                   # no media type) opened through them
                   {"name": "media", "quick": 400, "thorough": 12000, "workers": 12}],
        "rule_more": '; configuration files with [feeds]; media histories (group media) through hooks that name the media type',
        "rule": "hexToAnsi on valid, near-valid (one bad digit, signs, underscores, wrong length, non-ASCII digits) and random strings; configuration files generated value-first (colours, preload_amount/timeout_seconds/cache_size from {-1000..1000} and from the edges of int32, of a duration in seconds and of int64, key names in other letter cases, values of other TOML types (durations as strings, floats, booleans, hex/octal/underscored integers, inline tables, dotted keys: the model starts from what the decoder produced), hooks of 0..3 arguments, unknown keys/tables, syntax errors, missing file) "
                "then serialised to TOML and loaded by the real parse+postprocess; C19x walks the 16^6 colour space (a stride sample in quick, all of it in thorough); non-trivial = colour accepted / configuration not rejected by TOML itself; distinct by op content",
        "trusted": ["BurntSushi/toml decoding (the model starts from the decoded values; TOML-level rejections are the generator's ground truth)",
                    "strconv.ParseUint(.,16,0) on two bytes and strconv.Itoa as modelled; for the translated hexToAnsi/parse (Gen19h): Go strings as byte lists bridged to the model by core's UTF-8 encoding, the loop of strconv.ParseUint for an explicit base as transcribed in Model/GoBytes.lean, toml.DecodeFile as a parameter (struct written, metadata, error)"],
        "assumptions": ["Config.Safe is the only configuration hypothesis used by the panic-freedom theorems of C06/C07/C20"],
    },
    "C20": {
        # what the hook is handed is the subject of the property: the model's argv (Hook.build over the link
        # and media type the selection model picks, C20b) is the argv the statement describes
        "correspondence_is_failure": {"media": True, "hook": True},
        "lean_modules": ["Props.Facts19", "Props.C20b", "Props.Facts20", "Props.Gen20", "Props.GenT20", "Props.Gen20h", "Props.GenT20h", "Props.Gen03m", "Props.GenT03m", "Props.Gen12", "Props.GenT12"],
        "groups": [{"name": "C20", "quick": 600, "thorough": 20000, "workers": 12},
                   {"name": "media", "quick": 600, "thorough": 20000, "workers": 12},
                   # configuration files through the real parser: the hook that reaches openExternally is the configured one
                   {"name": "C19", "quick": 1000, "thorough": 20000}],
        "rule_more": "; a difference between the argv the real hook received and the model's counts as a failure (ops hook and media)",
        "rule": "hooks of 1..5 arguments drawn from exact placeholders, embedded/near placeholders (--title=%subtype, %supertype/%subtype, %url%url, quoted, other letter case, truncated), dashes and empty strings, one placeholder repeated, every placeholder twice, every placeholder but %url, with the program itself sometimes named like a placeholder or by its absolute path; links with spaces, quotes, shell metacharacters, leading dashes, newlines, placeholder look-alikes, data: / file: / javascript: / mailto: / relative / blank links; media types given as the triple or as written in a document (parameters, upper case, structured suffix, several slashes, blanks, placeholders inside, none at all) through the real mime.Parse; "
                "the real ui.openExternally runs a dump program that records argv and stdin; non-trivial = at least one argument after the program; distinct by op content; "
                "media group: posts and actors built from documents with url / attachment / icon / image link lists (typed, untyped, malformed, shorthand strings) x histories of 3..9 openings (Media, SelectLink k, ProfilePic, Banner, one of them repeated) through the real selection code and the real openExternally; "
                "half of the group are whole items as in C12's mediaL group (hostile hrefs inside HTML / Markdown / gemtext / plain-text bodies and attachment links, media types from the same pool): the numbers are typed through the real ui.Update (digits + Enter, o, p, b) on a page showing the item, or asked of SelectLink directly, and the recorded argv / stdin of the hook program is compared with the model; every frame drawn meanwhile must be terminal-safe, and a typed number must start the program with what SelectLink answers for that number; non-trivial = something was selected",
        "trusted": ["os/exec passes argv unchanged and never involves a shell (generated fact: exec.Command(command[0], command[1:]...))"],
        "assumptions": ["the hook is non-empty (Config.Safe, C19)"],
    },
    "C15": {
        "timeouts_not_mine": True,
        "lean_modules": ["Props.C13s", "Props.Gen15", "Props.GenT15", "Props.Gen15h", "Props.GenT15h", "Props.Gen17m"],
        "groups": [{"name": "render", "quick": 2500, "thorough": 60000},
                   # documents rendered from several goroutines at once
                   {"name": "renderpar", "quick": 40, "thorough": 1500, "workers": 4},
                   # one text under every media type, document after document in one process, through object.GetMarkup
                   {"name": "C15m", "quick": 280, "thorough": 14000, "workers": 2}],
        "rule": "documents from grammars of HTML (inline styles, links, media, blockquotes, lists, headings, pre, hr, unknown tags, character-reference injections), Markdown, gemtext and plain text with URLs x sequences of 1..4 (one in eight: 5..14) widths (with repeats and returns to earlier widths; -3..250); the same Markup value is rendered at each width in order; "
                "one case in 22 is a long history of 20..400 widths on one Markup (1 up to 20..220 and back in steps of 1..4, every width between two sizes there and back twice, jumps among a few sizes incl. 80/79/81/0/-1, a random walk, back to 80 after every other size), "
                "one in 15 keeps two or three Markup values alive (different documents, or the same text under the same or another media type) and renders them alternately for 4..23 steps (op renderpair); every output is also compared with the same document rendered at that width on a value that was never rendered before; "
                "non-trivial = the document has links or is rendered at more than one width; distinct by op content",
        "trusted": ["x/net/html and goldmark (the model renders the forest the real parser produced, shipped with the op; theorems quantify over all forests)", LIBS["regexp"], LIBS["unicode"]],
        "assumptions": ["width >= 1 for the width clause"],
    },
    "C16": {
        "lean_modules": ["Props.C16b", "Props.Gen16", "Props.GenT16", "Props.Gen16v", "Props.GenT16v", "Props.Gen07s", "Props.GenT07s", "Props.Gen16m", "Props.GenT16m"],
        "groups": [{"name": "C16", "quick": 6000, "thorough": 200000}, {"name": "C07", "quick": 160, "thorough": 4000, "workers": 16},
                   {"name": "C16x", "quick": 0, "thorough": 7, "workers": 1},
                   # concurrent keys, loads and resizes: every frame as tall as the state says when it is drawn
                   {"name": "C08", "quick": 24, "thorough": 600, "workers": 12},
                   # the program itself (main.go as shipped) on a pseudo terminal that is resized and typed on
                   {"name": "mainpty", "quick": 24, "thorough": 600, "workers": 8}],
        "rule_more": '; group mainpty: the shipped binary on a pseudo terminal, resized (widths 1..200, heights 2..120, back to the starting size) and typed on; after each step the frame at rest is counted',
        "rule": "prefix/centered/suffix of 0..8 styled lines each x heights 1..16; one layout in four with parts of nothing, of up to 40 styled lines, of 100..500 rows or of up to 300 empty lines above, at and below the cursor x heights 1..4, around the size of the centre and of centre + twice the part above / below (where the layout changes its case), the sum of all parts, 2..61 and 100..999; "
                "ReplaceLastLine on frames of one line, of empty lines only and of hundreds of lines with an empty or a styled status line; status-line SetLength on raw text (control characters, often exactly as long as the width); the C07 sessions (all frames judged: tiny terminals, very tall items, every status line, hook output variants, loading frames drawn during held loads) and the C08 stress (frame height against the state's height at drawing time); "
                "thorough: C16x = every geometry of 0..7 lines per part (0 = the empty string) x heights 1..16; non-trivial = height exceeds the centred text (buffers are computed); distinct by op content",
        "trusted": [LIBS["regexp"]],
        "assumptions": ["frames are produced only by ui.State.view (generated fact)", "terminal height >= 2 for the status line clause"],
    },
}

# --------------------------------------------------------------------------------------------
# Texts for MANIFEST.json (checks/gen_manifest.py)

MANIFEST_TEXT = {
    "C01": {
        "text": "Lean theorems: Scrub leaves no control character but newline; clean styled text (printable characters, newlines, well-formed SGR around single characters) is terminal-safe and is closed under the whole style layer, every layout function and the HTML/Markdown, gemtext and plain-text renderers for every forest (arbitrary strings in text nodes and attributes), source and width; error text through style.Problem and the status line through SetLength are safe for every message; accepted configurations have well-formed colours. What an item shows (String, Preview, Name of Post, Actor, Activity, Failure with header, center, supplement, footer, Collection.Size, style.Problem, ansi.Scrub) is translated to Lean on every run (extract/go2lean21.go -> Generated/GoPresent.lean) and proved equal to the presentation model for every field content, width and colours, without panics (Props/Gen01p.lean), so the item-level cleanliness theorems hold of the translated code (Props/GenT01p.lean). printRaw of main.go, the last function a frame passes through, is translated too (extract/go2lean25.go -> Generated/GoMain.lean): for a clean frame it writes cursor-home, clear-screen and the frame with a carriage return before every line feed and nothing else (Props/Gen16m.lean, Props/GenT01m.lean terminal_gets_frame_and_cr). Otherwise tied to the code by differential correspondence on the renderers, style.Problem, Scrub, SetLength; the Safe predicate is evaluated on every implementation output.",
        "design_ref": "DESIGN.md §5 C01",
        "note": "Trusted: Lean kernel; correspondence check (testing); x/net/html, goldmark; element names are control-free; URL.Host of dialled hosts.",
        "technique": "Lean 4 proof (Clean invariant, mutual induction over the renderer) + differential correspondence with a safety predicate on every output",
    },
    "C12": {
        "text": "Lean theorems: in every renderer each numbered element prints the index of its own target (ghost labels = 1..N in order, nesting included), the link list is independent of the width, and SelectLink(k) returns body link k, then attachment k-|links|, and nothing for any other integer; the numbers supplement prints select the right attachment. pub/link.go (the Link struct, NewLink, Alt, rating, SelectBestLink, SelectFirstLink, Select/SelectWithDefaultMediaType) is translated to Lean on every run (extract/go2lean5.go -> Generated/GoLink.lean) and proved equal to the link model (Props/Gen20.lean), so the selection theorems hold of the translated code (Props/GenT20.lean); the methods that give and take the numbers (Post.supplement, Post/Actor/Activity/Failure.SelectLink, Post.Media, Actor.ProfilePic/Banner) are translated too (extract/go2lean11.go -> Generated/GoSelect.lean), proved equal to Select.post / the link and presentation models without panics (Props/Gen12.lean), and the number printed for attachment i is proved to select attachment i on the translated code, every attachment numbered (Props/GenT12.lean). Otherwise tied to the code by differential correspondence on the renderers with generator-assigned labels and targets; label->target and 1..N predicates are evaluated on every implementation output. style.superscript (the number printed behind a link) is translated on every run (extract/go2lean27.go -> Generated/GoGlue.lean) and proved equal to the model's digits for every n >= 0, injective and never empty; a negative argument panics (Props/Gen14s.lean).",
        "design_ref": "DESIGN.md §5 C12",
        "note": "Trusted: Lean kernel; correspondence check (testing); parsers; adjacency of numbers is not part of the statement.",
        "technique": "Lean 4 proof (ghost-label invariant by mutual induction over the renderer) + differential correspondence with a label oracle",
    },
    "C14": {
        "text": "Lean theorems: the terminal displays each cell of rendered clean text with exactly its attributes and is neutral after every cell; for every nesting/concatenation of the style functions over ESC-free text the result is the rendering of cells whose attributes are exactly the enclosing functions; clean text stays clean (hence neutral at every line break and at the end) under wrap, dumbwrap, pad, indent, snip, centring, last-line replacement and the renderers, and can be cut at line boundaries. Tied to style.go/ansi.go by translation (style.go: Props/Gen14.lean; ansi.Apply and the horizontal layout functions: Props/Gen13.lean, the attribute on exactly the non-newline cells restated on the translated Apply in Props/GenT13.lean) and by differential correspondence on style expressions and layout pipelines, running the terminal state machine on the implementation's output.",
        "design_ref": "DESIGN.md §5 C14",
        "note": "Trusted: Lean kernel; correspondence check (testing); the terminal model of SGR.",
        "technique": "Lean 4 proof (cell-level refinement of the ANSI layer) + differential correspondence with a terminal state machine",
    },
    "C02": {
        "text": "Lean theorems over an arbitrary world (fetch function): FetchUnknown returns an object with an id only if that object was served by the id's host (directly, or re-fetched, or embedded in a document from it), and the constructors only ever pass an enclosing object's own validated id as source, so every item of a built tree has provenance at its id's host; a foreign embedded object is re-fetched or rejected as forged. Tied to client.go by translation (client.FetchUnknown is translated to Lean on every run and proved equal to the model's fetchUnknown for every world, input and source, nil dereferences excluded: Props/Gen02.lean; the provenance and forged-identifier theorems restated on the translated function: Props/GenT02.lean), to pub by translation (the constructors NewPost, NewActor, NewActivity, New, NewTangible, their FromObject forms and the getters they call are translated on every run - extract/go2lean22.go -> Generated/GoNewitem.lean - and proved to return the model's verdict on every world and object without panic: Props/Gen02n.lean; new_provenance and forged_rejected restated on the translated constructors: Props/GenT02n.lean; the navigation methods Parents, Children, the identifiers, Creators, Recipients, Actor, Target, Timestamp and FetchUserInput are translated too - extract/go2lean26.go -> Generated/GoNavigate.lean - and proved equal to the model's parents, children, identifiers and user-input classification on every world, post and quantity: Props/Gen02p.lean; every parent listed was served by the host in its id: Props/GenT02p.lean parents_provenance, new_then_parents) and to client.go/pub by differential correspondence on whole item trees over multi-host TLS worlds whose every body is stamped with the serving host; the stamp-vs-id predicate is evaluated on every implementation output.",
        "design_ref": "DESIGN.md §5 C02",
        "note": "Trusted: Lean kernel; correspondence check (testing); net/url host parsing as a parameter; TLS.",
        "technique": "Lean 4 proof (provenance invariant through FetchUnknown and the constructors) + differential correspondence over multi-host simulator worlds",
    },
    "C06": {
        "text": "Lean theorems for every panic site the rendering path has: the <hr> repeat count is never negative after the guard (and strings.Repeat is shown to panic exactly on negative counts, so the site is real), link selection is total and returns nothing below 1, SetLength/Snip/ReplaceLastLine succeed under the conditions their callers establish, paging terminates on every chain (C10) and Current() is defined (C18); all other modelled functions are total by construction. Tied to the code by running every Tangible method of items built from generated hostile JSON and deep markup under recover, a 10 s watchdog and a memory limit, plus the renderer correspondence. Partial: wall-clock and memory are observed.",
        "design_ref": "DESIGN.md §5 C06",
        "note": "Trusted: Lean kernel; correspondence/fuzzing (testing); external parsers; Go runtime. Known finding: cubic render time under very deep block nesting.",
        "technique": "Lean 4 proof (panic-site theorems over Except-valued model functions) + differential correspondence and crash/hang observation under recover and watchdog",
    },
    "C07": {
        "text": "Lean model of State.Update (every branch, in order) over the item model, with theorems over all worlds and all byte sequences: Update never panics from any state reachable from Subcommand(open, .) (history non-empty, selection buffer all digits), and each key does what the keymap says (j/k move within bounds, g returns to the opened item, h/l walk the history, space/c/r/a/./:open push exactly one page and drop the forward history, Esc/Backspace cancel, digits select). Tied to ui.go by driving the real ui.State against simulator worlds and comparing mode, buffer, cursor and the visible window after every key; every emitted frame must have the terminal's height and be terminal-safe. Tied a second time by translation: (*State).Update itself - the loading return, Escape, Backspace, the command line with SplitN, ':' and the digits, selection mode with strconv.Atoi and SelectLink, the fall-through into the final switch, one case per key - is translated to Lean on every run (extract/go2lean16.go -> Generated/GoUpdate.lean) with the other methods of *State and of package pub as parameters, and proved equal to Ui.update on every model state and every byte when those parameters are the model's own functions (Props/Gen07.lean); the keymap theorems are carried over to the translated code (Props/GenT07.lean). Those parameters are translated in turn (extract/go2lean24.go -> Generated/GoSwitch.lean): switchTo (the type switch in its order, the len tests, each &Page{...} literal with its initialisers, Harvest(uint(Context+1), 0) between the two mode writes, s.h.Add), loadSurroundings (each start condition, the flag set before the go statement, each goroutine as its critical section plus the call it makes before it takes the mutex), subcommand / Subcommand (the names compared, the error texts), openUserInput / openFeed with their goroutines, SetWidthHeight; proved equal to Ui.switchTo, Ui.startsUp / startsDown / upDone / downDone and the settled Ui.loadSurroundings, Ui.subcommand, Ui.setWidthHeight on every model state (Props/Gen07s.lean), so that the translated Update over translated actions is Ui.update (update_eq_translated); on the translated code: opening an item or a container never panics and leaves a current page, a loader that finishes - whenever, whatever the world answered - changes only the page it was started for (Props/GenT07s.lean).",
        "design_ref": "DESIGN.md §5 C07",
        "note": "Trusted: Lean kernel; correspondence check (testing); quiescence detection; oracle tables; TLS.",
        "technique": "Lean 4 proof (invariant by induction over the key sequence; keymap corollaries) + differential correspondence of the real UI against the model after every key",
    },
    "C08": {
        "text": "Lean theorems about a model of one mutex plus ownership tokens, for every program, every number of threads and every interleaving: the static discipline (accesses under the mutex or the variable's token, tokens handled under the mutex, no nested lock) excludes data races, makes frame emission exclusive, excludes deadlock and makes every execution finite. The lock/access skeleton of ui/ui.go and the goroutine fan-outs of pub/splicer are regenerated from the source by a go/ast extractor on every run and shown (by evaluation in Lean) to satisfy the discipline: every entry point, private methods lock-free, the loading-flag ownership protocol, pairwise-disjoint fan-out writes. The extraction is validated by a -race stress of the real UI with an overlap detector and a watchdog. Partial: extraction and the Go memory model are trusted.",
        "design_ref": "DESIGN.md §5 C08",
        "note": "Trusted: Lean kernel; extract/ (go/ast); Go memory model, sync primitives; race-detector stress is validation only.",
        "technique": "Lean 4 proof (interleaving model, invariant over all reachable states) over facts regenerated from the source by a translator + race-detector stress as validation",
    },
    "C09": {
        "text": "Lean theorems: an outbox element is delivered as an activity iff construction succeeded, the owner has an id and the activity's resolved actor id equals it; a reply element is delivered as a post iff its resolved inReplyTo id equals the post's id; a post is built only if every resolved author shares its host; listings keep one entry per element in order, failures in place. The FetchUnknown that resolves every actor, reply target and author is tied to client.go by translation (Props/Gen02.lean, Props/GenT02.lean). Tied to pub twice: the filters themselves - the outbox closure of NewActorFromObject, constructComment of NewPostFromObject, the forged-creators loop, getActors (goroutine fan-out in index order), getPostOrActor, New, NewTangible, the three identifier accessors and the type test at the head of the four constructors - are translated to Lean on every run (extract/go2lean14.go -> Generated/GoListing.lean; the item constructors and FetchUnknown are parameters) and proved equal to the model's for every world and entry, without panic (Props/Gen09.lean), and the theorems are restated about the code as translated (Props/GenT09.lean); the constructors themselves, with the translated FetchUnknown inside, are translated too (extract/go2lean22.go -> Generated/GoNewitem.lean) and proved to return the model's verdict - a post is refused exactly when a loaded author fails the host comparison: Props/Gen02n.lean forged_iff, Props/GenT02n.lean post_authors_same_host; Post.Parents and Activity.Parents as translated (extract/go2lean26.go -> Generated/GoNavigate.lean) are the model's chain of inReplyTo with at most quantity entries (Props/Gen02p.lean post_parents_eq, Props/GenT02p.lean parents_bounded, first_parent_is_reply_target); and by differential correspondence on listings over multi-host worlds with impostors; genuineness predicates are evaluated on every implementation output.",
        "design_ref": "DESIGN.md §5 C09",
        "note": "Trusted: as C02; the translator extract/go2lean14.go and its semantics library (Model/GoPub.lean: errors as what errors.Is sees of them, the fan-out over disjoint cells run in index order; Model/GoSlices.lean: nil receivers panic).",
        "technique": "Lean 4 proof (case analysis of the listing filters, positions via the paging theorems; equivalence of the translated Go filters with the model) + differential correspondence",
    },
    "C03": {
        "text": "Lean theorems for all response byte strings, worlds, budgets and caches: an exchange yields a document iff the status is 200-203, at least one Content-Type line is present, every Content-Type line names a tolerated type, the header block is terminated; a fetch succeeds only along a chain of https hops within the budget whose last response is such a document, source = URL of that response, at most budget+1 requests; every sound cache (any eviction) is transparent: same result as with an empty cache. Tied to jtp.go by differential correspondence on the recognisers and on jtp.Get against a loopback TLS simulator, request log included.",
        "design_ref": "DESIGN.md §5 C03",
        "note": "Trusted: Lean kernel; correspondence check (testing); TLS/net; url and json libraries as oracle tables; LRU order as modelled.",
        "technique": "Lean 4 proof (structural recursion on the redirect budget, cache soundness invariant) + differential correspondence against a TLS simulator",
    },
    "C04": {
        "text": "Lean theorems about the byte template of the only connection.Write: for CR/LF-free request-URI, host and accept the bytes parse (with a strict HTTP/1.0 reader) as exactly one GET with a Host and an Accept header and nothing after the blank line; connections are opened only for https URLs on every hop. Tied to jtp.go twice: the statements of Get before the response is read - the cache key and lookup, the scheme test, the dial target, the deadline, the one connection.Write - are translated to Lean on every run (extract/go2lean18.go -> Generated/GoJtpfront.lean: a record of what is dialled, given a deadline, written and closed, in program order) and proved to write exactly the model's request to JoinHostPort(Hostname, Port or 443), never to dial for another scheme, and to be one step of the model's get (Props/Gen04.lean), and the theorems are restated about the code as translated (Props/GenT04.lean); to client.go by translation as well: ResolveWebfinger and FetchURL are translated on every run (extract/go2lean23.go -> Generated/GoWebfinger.lean: the split of the handle, the URL as a fresh value per call, the arguments of the one call of jtp.Get, the loop over the JRD links, the singleflight key) and proved to ask for https://domain/.well-known/webfinger?resource=<query escaping of acct:user@domain> with the JRD accept string, to write exactly the request the differential check expects, and to read the answer as the model does (Props/Gen04w.lean), with C04 restated on the lookup (Props/GenT04w.lean: one call, one request per hop, the user part reaches the wire only inside the query escaping, which lets no delimiter through); and to jtp.go/client.go by recording the raw bytes of every connection at a TLS simulator (plus a plaintext canary) for hostile URLs and webfinger handles and comparing them with the template. Partial: TLS, DNS, sockets are not modelled.",
        "design_ref": "DESIGN.md §5 C04",
        "note": "Trusted: Lean kernel; the translator extract/go2lean18.go and its semantics library (Model/GoNet.lean: a *url.URL as the record of what its accessors return, net.JoinHostPort transcribed); the translator extract/go2lean23.go and its semantics library (Model/GoUrl.lean: a composite literal as a fresh URL, RequestURI/Hostname/Port/QueryEscape/Values.Encode transcribed from net/url, strings.SplitN, singleflight as one execution per key); correspondence check (testing); net/url control-byte rejection; crypto/tls; DNS.",
        "technique": "Lean 4 proof (byte-level request contract) + differential correspondence on recorded connection bytes",
    },
    "C05": {
        "text": "Lean theorems about the classification of truncated streams: if a complete response is a document, every truncation inside the status line or header block is an error and a truncation inside the body hands exactly the truncated body to the decoder, so with a prefix-free decoder a truncated response is never a document; a fetch opens at most budget+1 connections, hence is bounded by (budget+1)*T when each connection is bounded by T. The runtime part (deadline honoured, TLS, resets, stalls, trickling, wall-clock) is enumerated against the real jtp.Get with the simulator's fault modes. Partial by nature.",
        "design_ref": "DESIGN.md §5 C05",
        "note": "Trusted: Lean kernel; fault-injection correspondence (testing); net.Conn deadlines; json.Decoder; wall-clock.",
        "technique": "Lean 4 proof (prefix lemmas on the response reader) + fault enumeration against a TLS simulator",
    },
    "C10": {
        "text": "Lean theorems for every page chain given by an arbitrary load function (cyclic and endless chains included) and all request sizes and offsets: bounded number of pages visited; the delivery is a prefix of the true sequence followed by at most one error item; a continuation means exactly the requested amount; harvesting n1 then n2 equals harvesting n1+n2; an empty continuation without error only at a clean end with everything delivered; refusal only after more than three consecutive empty pages. Termination itself is the well-founded measure of the model. Tied to collection.go twice: Harvest and harvestWithEmptyCount are translated to Lean on every run (extract/go2lean6.go -> Generated/GoCollection.lean: a recursion on explicit fuel, wrapping uint/int arithmetic, the goroutine fan-out run in program order) and proved equal to the model for every fuel from (amount+1)*4+1 on (Props/Gen10.lean: same entries, same continuation, no panic; the model's page count is exactly the recursion depth of the code), so the code as translated terminates on every chain and the theorems are restated about it (Props/GenT10.lean); and by differential correspondence on generated embedded chains; the prefix predicate is evaluated on every implementation output.",
        "design_ref": "DESIGN.md §5 C10",
        "note": "Trusted: Lean kernel; the translator extract/go2lean6.go and its semantics library (Model/GoRec.lean: fuel, wrapping uint, errors as classes, the fan-out over disjoint cells run sequentially - the disjointness is a C08 fact); correspondence check (testing); encoding/json. Assumes amount + startingPoint < 2^64.",
        "technique": "Lean 4 proof (well-founded recursion + functional induction; equivalence of the translated Go code with the model by induction on fuel) + differential correspondence",
    },
    "C11": {
        "text": "Lean theorems for all source lists, timestamps and request sizes: each microharvest pops the first head with maximal timestamp; taking q items is a trace of pops, each source's delivered items followed by its remaining buffer equal its original buffer (exactly once, order kept); taking q1 then q2 equals taking q1+q2; skipping then taking equals dropping; the continuation is none exactly when the buffers ran dry. Tied to splicer.go twice: the element type of Splicer, clone, replenish (its goroutine fan-out accepted only when each closure touches s[i] alone, then run in index order), microharvest and Harvest are translated to Lean on every run (extract/go2lean7.go -> Generated/GoSplicer.lean; interface values as Options so the nil tests are translated; the external Container.Harvest and Timestamp comparisons as parameters) and proved equal to the model for splicers without nil elements and quantity + startingPoint < 2^62 (Props/Gen11.lean), with the C11 theorems restated on the translated Harvest (Props/GenT11.lean); the constructor NewSplicer is translated too (extract/go2lean27.go -> Generated/GoGlue.lean: one goroutine per input as a function of the cell s[i] that returns how many wg.Done() the path taken executed; Props/Gen11n.lean: every path that ends executes Done exactly once so the counter at wg.Wait() is 0, one fresh source per input in input order, equal to the model's Ui.newSplicer); and by differential correspondence over synthetic sources through a package-internal shim.",
        "design_ref": "DESIGN.md §5 C11",
        "note": "Trusted: Lean kernel; correspondence check (testing); value semantics for the cloned slice-of-structs; replenish goroutines as an order-preserving map.",
        "technique": "Lean 4 proof (induction over pops with a first-maximum invariant) + differential correspondence",
    },
    "C13": {
        "text": "Lean theorems over all lists of regex matches (hence all strings) and all widths >= 1 for Wrap (width, content, breaks, word integrity), DumbWrap, Pad, Indent and Snip; the model is tied to ansi.go twice: collapse, Apply, Indent, Pad, DumbWrap, Wrap, lineIsOnlyWhitespace and Snip are translated to Lean on every run (extract/go2lean8.go -> Generated/GoAnsih.lean; the regular expression of expand is a parameter) and proved equal to the model's functions, panics included (Props/Gen13.lean), with the width / content / padding / indentation theorems restated on the translated code (Props/GenT13.lean); and by a differential correspondence check on generated styled and hostile text, with the same predicates evaluated on the implementation's output.",
        "design_ref": "DESIGN.md §5.0, §5 C13",
        "note": "Trusted: Lean kernel; the correspondence check (testing) between ansi.go and lean/Model/Ansi.lean; Go regexp semantics of the expand pattern (validated differentially); unicode.IsSpace table as transcribed.",
        "technique": "Lean 4 proof (induction over the wrap state machine) + differential correspondence",
    },
    "C17": {
        "text": "Lean theorems for all JSON values, keys and accessors: each accessor returns exactly absent (missing/null/empty), wrong (other type/unparseable/out of range) or the faithful value; GetNumber returns n iff the double's exact value (computed from its bit pattern with integer arithmetic) is the natural number n < 2^64. Tied to object.go twice: GetAny, GetString, GetNumber (its floating-point operations interpreted on bit patterns, and those interpretations compared with Go's own arithmetic on every run), GetObject, GetList, GetTime, GetURL, GetMediaType and the getPrimitive instances they use are translated to Lean on every run (extract/go2lean3.go -> Generated/GoObject.lean) and proved equal to the model's accessors (Props/Gen17.lean); and (all accessors, GetMarkup included, and mime.go) by differential correspondence on values decoded by the real encoding/json; number exactness, empty-means-absent and sanitisation are also checked on every implementation output. GetMarkup is translated as well (extract/go2lean27.go -> Generated/GoGlue.lean: the accessors it calls, the default media type when the key is absent, the switch over the essence with the constructor of each case, the error of the default) and proved equal to the model's dispatch Obj.getMarkupKind with its decision table (Props/Gen17m.lean); hypertext.NewMarkup and markdown.NewMarkup are translated with the external parser / converter as a parameter.",
        "design_ref": "DESIGN.md §5 C17",
        "note": "Trusted: Lean kernel; correspondence check (testing); encoding/json, time.Parse, url.Parse as parameters/oracle tables.",
        "technique": "Lean 4 proof (case analysis over a JSON datatype, bit-exact IEEE-754 model) over a model proved equal to the Lean translation of the accessors regenerated on every run + differential correspondence",
    },
    "C18": {
        "text": "Refinement theorems in Lean: every history op sequence keeps the invariant, never panics and denotes what a zipper computes; every feed operation preserves the representation of a two-sided sequence, lookups/containment/parent-child agree with positions, append/prepend never move items, moves stay in bounds. Tied to history.go/feed.go twice: both files are translated to Lean on every run (extract/go2lean.go -> Generated/GoHistory.lean, GoFeed.lean) and every method of the generated code is proved equal to the model's (Props/Gen18.lean); and by differential correspondence after every step, exhaustive up to a length bound.",
        "design_ref": "DESIGN.md §5 C18",
        "note": "Trusted: Lean kernel; correspondence check (testing; exhaustive to length 7 quick / 9 thorough); slice aliasing and Go map semantics as modelled.",
        "technique": "Lean 4 proof (refinement to zipper / two-sided sequence by induction over operations) over a model proved equal to the Lean translation of the Go source regenerated on every run + differential correspondence",
    },
    "C19": {
        "text": "Lean theorems for all strings and all decoded configurations: hexToAnsi accepts exactly '#' + six hex digits and yields three decimal components 0..255; an accepted configuration satisfies Config.Safe (non-empty hook, cache >= 1, 0 <= preload <= MaxInt32, timeout >= 0 and converted to nanoseconds in wrapping int64 arithmetic without wrap-around, well-formed colours), a rejected one names an invalid key, valid ones are accepted, the defaults are safe. Tied to config.go twice: the Config struct, the defaults of parse and postprocess are translated to Lean on every run (extract/go2lean4.go -> Generated/GoConfig.lean, sizes in wrapping 64-bit arithmetic) and proved equal to the model, so that the safety theorem holds of the translated code itself (Props/Gen19.lean); and by differential correspondence through a package-internal shim on generated TOML files; colour well-formedness is also checked on every implementation output; thorough walks all 16^6 colours.",
        "design_ref": "DESIGN.md §5 C19",
        "note": "Trusted: Lean kernel; correspondence check (testing); TOML decoding; strconv as modelled.",
        "technique": "Lean 4 proof (character-level case analysis) + differential correspondence, exhaustive colour space in thorough",
    },
    "C20": {
        "text": "Lean theorems for all hooks, links and media types: argv has the hook's length, the program name is never substituted, an argument is replaced iff it is exactly a placeholder, stdin carries the link iff no %url argument, the link is one verbatim argument; which (link, media type) pair is handed on is proved on pub/link.go as translated to Lean on every run (extract/go2lean5.go -> Generated/GoLink.lean, Props/Gen20.lean, Props/GenT20.lean): the link's own type, else the default of its kind, else the caller's default. Which link a number, o, p or b selects is proved on Post/Actor/Activity.SelectLink, Post.Media, Actor.ProfilePic/Banner as translated (extract/go2lean11.go -> Generated/GoSelect.lean, Props/Gen12.lean, Props/GenT12.lean). (*State).openExternally of ui/ui.go itself - the copy of the configured hook, the loop with its index-0 skip and its switch over the placeholder literals, the flag, exec.Command(command[0], command[1:]...), cmd.Stdin under its condition, and the goroutine that reports how the program ended - is translated to Lean on every run (extract/go2lean17.go -> Generated/GoHook.lean) and proved to hand os/exec exactly Hook.build's argv and stdin for every hook, link and media type, to leave Ui.openExternally's state, never to write the configured hook, and to end in Ui.hookDone's state in every mode after success and failure (Props/Gen20h.lean); the C20 theorems hold of the translated code (Props/GenT20h.lean). Also tied to ui.openExternally by running the real function with a dump program as the hook and comparing argv/stdin with the model; the same predicates are checked on the recorded argv.",
        "design_ref": "DESIGN.md §5 C20",
        "note": "Trusted: Lean kernel; correspondence check (testing); os/exec argv passing.",
        "technique": "Lean 4 proof (list induction) + differential correspondence through a recording hook program",
    },
    "C15": {
        "text": "Lean theorems for every forest / line list / string and every width >= 1: no rendered line exceeds the width (the final whole-document Wrap, via wrap_width, followed by trims that only remove characters); the cached text always equals the pure renderer at the cached width, so after any sequence of widths Render(w) returns R(tree, w). Tied to hypertext/gemtext/plaintext/markdown by differential correspondence on the forests the real parsers produce and on width sequences; width and same-width-same-text predicates are evaluated on every implementation output.",
        "design_ref": "DESIGN.md §5 C15",
        "note": "Trusted: Lean kernel; correspondence check (testing); x/net/html, goldmark; the regexes of gemtext/plaintext as modelled.",
        "technique": "Lean 4 proof (wrap_width + cache invariant by induction over the width sequence) + differential correspondence",
    },
    "C16": {
        "text": "Lean theorems for all prefix/centred/suffix texts and all heights >= 1: CenterVertically returns exactly h lines, centred as specified; ReplaceLastLine keeps the height for texts of >= 2 lines; SetLength is newline-free. Tied to ansi.go twice: Height, CenterVertically, ReplaceLastLine, SetLength and Squash are translated to Lean on every run (extract/go2lean2.go -> Generated/GoAnsi.lean) and proved equal to the model's functions (Props/Gen16.lean); and by differential correspondence; the height predicate is evaluated on every implementation output. (*State).view of ui/ui.go itself - the walk over the feed, the Loading lines, the footer switch - is translated too (extract/go2lean12.go -> Generated/GoView.lean) and proved equal to Ui.frame applied to the parts and the footer the model computes (Props/Gen16v.lean), so that every frame of the translated view has exactly `height` lines for height >= 2, in every mode, whatever the items render to (Props/GenT16v.lean). SetWidthHeight is translated as well (extract/go2lean24.go -> Generated/GoSwitch.lean) and proved equal to Ui.setWidthHeight (Props/Gen07s.lean): a call with a new size stores it and draws exactly one frame, from the state with the new size, which the translated view makes exactly `height` lines; a call with the old size draws nothing (Props/GenT07s.lean). main.go - the size poller's round, the key loop's round, printRaw, the start-up sequence - and (*State).SetWidthHeight are translated too (extract/go2lean25.go -> Generated/GoMain.lean) and proved equal to Model/Main.lean (Props/Gen16m.lean): the poller hands exactly the size it read to SetWidthHeight every round, so in every history of poll rounds and keys every frame drawn after a round that read (w, h) and before the next is drawn from a state of that size, has h lines for h >= 2 and is written by printRaw as the clear-screen prefix and h - 1 CR LF pairs (Props/GenT16m.lean; Update is assumed to leave width and height alone - its translation does not carry them).",
        "design_ref": "DESIGN.md §5 C16",
        "note": "Trusted: Lean kernel; correspondence check (testing); strings.Split/Join/Count/Repeat/LastIndex as modelled on character lists.",
        "technique": "Lean 4 proof (list lemmas on split/join) over a model proved equal to the Lean translation of the layout functions regenerated on every run + differential correspondence",
    },
}

NOT_APPLICABLE = {p: "check not built yet in this round (planned, see DESIGN.md §7)" for p in
                  ["C%02d" % i for i in range(1, 21)]}
