"""Per-property configuration of ./check: harness groups and sizes per tier, evidence texts."""

LIBS = {
    "regexp": "Go regexp semantics of the `expand` pattern are validated differentially (op expand), not proved",
    "unicode": "unicode.IsSpace / unicode.IsControl are modelled as explicit code-point predicates (compared with Go on all code points in the thorough tier)",
}

PROPS = {
    "C13": {
        "groups": [{"name": "C13", "quick": 6000, "thorough": 200000}],
        "rule": "styled text from a cell grammar (words, runs of all IsSpace kinds, newlines, nested SGR attributes; 1 in 5 a hostile ESC/[/m string) x widths -3..250; "
                "non-trivial = some input line is longer than the width (wrap/dumbwrap/pad actually act) / more lines than the height (snip) / a styled cell is present (expand); distinct by op content",
        "trusted": [LIBS["regexp"], LIBS["unicode"]],
        "assumptions": ["model strings are sequences of Unicode scalar values (valid UTF-8 in Go)",
                        "the width theorems are about canonical styled text (what servitor's own style layer produces); hostile strings are covered by the correspondence check only"],
    },
    "C16": {
        "groups": [{"name": "C16", "quick": 6000, "thorough": 200000}],
        "rule": "prefix/centered/suffix of 0..8 styled lines each x heights 1..16; non-trivial = height exceeds the centred text (buffers are computed); distinct by op content",
        "trusted": [LIBS["regexp"]],
        "assumptions": ["frames are produced only by ui.State.view (generated fact)", "terminal height >= 2 for the status line clause"],
    },
}

# --------------------------------------------------------------------------------------------
# Texts for MANIFEST.json (checks/gen_manifest.py)

MANIFEST_TEXT = {
    "C13": {
        "text": "Lean theorems over all lists of regex matches (hence all strings) and all widths >= 1 for Wrap (width, content, breaks, word integrity), DumbWrap, Pad, Indent and Snip; the model is tied to ansi.go by a differential correspondence check on generated styled and hostile text, with the same predicates evaluated on the implementation's output.",
        "design_ref": "DESIGN.md §5.0, §5 C13",
        "note": "Trusted: Lean kernel; the correspondence check (testing) between ansi.go and lean/Model/Ansi.lean; Go regexp semantics of the expand pattern (validated differentially); unicode.IsSpace table as transcribed.",
        "technique": "Lean 4 proof (induction over the wrap state machine) + differential correspondence",
    },
    "C16": {
        "text": "Lean theorems for all prefix/centred/suffix texts and all heights >= 1: CenterVertically returns exactly h lines, centred as specified; ReplaceLastLine keeps the height for texts of >= 2 lines; SetLength is newline-free. Tied to ansi.go by differential correspondence; the height predicate is evaluated on every implementation output.",
        "design_ref": "DESIGN.md §5 C16",
        "note": "Trusted: Lean kernel; correspondence check (testing); strings.Split/Join/Count/Repeat/LastIndex as modelled on character lists.",
        "technique": "Lean 4 proof (list lemmas on split/join) + differential correspondence",
    },
}

NOT_APPLICABLE = {p: "check not built yet in this round (planned, see DESIGN.md §7)" for p in
                  ["C%02d" % i for i in range(1, 21)]}
