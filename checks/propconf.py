"""Per-property configuration of ./check: harness groups and sizes per tier, evidence texts."""

LIBS = {
    "regexp": "Go regexp semantics of the `expand` pattern are validated differentially (op expand), not proved",
    "unicode": "unicode.IsSpace / unicode.IsControl are modelled as explicit code-point predicates (compared with Go on all code points in the thorough tier)",
}

PROPS = {
    "C13": {
        "groups": [{"name": "C13", "quick": 6000, "thorough": 200000}],
        "rule": "styled text from a cell grammar (words, runs of all IsSpace kinds, newlines, nested SGR attributes; 1 in 5 a hostile ESC/[/m string) x widths -3..250; "
                "non-trivial = some input line is longer than the width (wrap/dumbwrap/pad actually act) / more lines than the height (snip) / a styled cell is present (expand); distinct by op content",
        "trusted": [LIBS["regexp"], LIBS["unicode"]],
        "assumptions": ["model strings are sequences of Unicode scalar values (valid UTF-8 in Go)",
                        "the width theorems are about canonical styled text (what servitor's own style layer produces); hostile strings are covered by the correspondence check only"],
    },
    "C17": {
        "groups": [{"name": "C17", "quick": 8000, "thorough": 300000}],
        "rule": "JSON documents with null/bool/number/string/array/object under keys k, m, z (numbers from an edge pool around 0, +-1, 2^53, 2^63, 2^64, subnormals, huge exponents, random bit patterns and integers around powers of two; strings with control characters, timestamps, URLs, media types) x every accessor x present/absent keys; "
                "non-trivial = the key is present in the document; distinct by op content",
        "trusted": ["encoding/json decoding (the model starts from the decoded value, shipped as a typed tree with IEEE bit patterns)",
                    "time.Parse(RFC3339) and url.Parse as oracle tables computed by the real libraries per case (model parameters `Libs`)",
                    "Go's uint64(float64) conversion for in-range integral values is exact (language definition)"],
        "assumptions": ["JSON cannot produce NaN or infinities (encoding/json rejects out-of-range literals)"],
    },
    "C18": {
        "groups": [{"name": "C18", "quick": 4000, "thorough": 100000},
                   {"name": "C18x", "quick": 6, "thorough": 9, "workers": 1}],
        "rule": "random history sequences (add/back/forward, length 0..200) and feed sequences (create or create-list, then append/prepend/up/down/center, length 0..30) observed after every step "
                "(IsEmpty, Current / Current, and Contains, IsParent, IsChild, Get over offsets -4..4); plus all history sequences up to the length bound and all feed sequences up to bound-2 (group C18x); "
                "non-trivial = at least two adds and one move (history) / at least two steps (feed); distinct by op content",
        "trusted": ["Go slice aliasing in History.Add (append on a re-sliced array) is modelled by value semantics; interleaved back/add/forward sequences exercise it"],
        "assumptions": ["feed.CreateEmpty is dead code on the tree and outside the property (create / create-list are the documented constructors)",
                        "Go int overflow of feed bounds is out of scope"],
    },
    "C16": {
        "groups": [{"name": "C16", "quick": 6000, "thorough": 200000}],
        "rule": "prefix/centered/suffix of 0..8 styled lines each x heights 1..16; non-trivial = height exceeds the centred text (buffers are computed); distinct by op content",
        "trusted": [LIBS["regexp"]],
        "assumptions": ["frames are produced only by ui.State.view (generated fact)", "terminal height >= 2 for the status line clause"],
    },
}

# --------------------------------------------------------------------------------------------
# Texts for MANIFEST.json (checks/gen_manifest.py)

MANIFEST_TEXT = {
    "C13": {
        "text": "Lean theorems over all lists of regex matches (hence all strings) and all widths >= 1 for Wrap (width, content, breaks, word integrity), DumbWrap, Pad, Indent and Snip; the model is tied to ansi.go by a differential correspondence check on generated styled and hostile text, with the same predicates evaluated on the implementation's output.",
        "design_ref": "DESIGN.md §5.0, §5 C13",
        "note": "Trusted: Lean kernel; the correspondence check (testing) between ansi.go and lean/Model/Ansi.lean; Go regexp semantics of the expand pattern (validated differentially); unicode.IsSpace table as transcribed.",
        "technique": "Lean 4 proof (induction over the wrap state machine) + differential correspondence",
    },
    "C17": {
        "text": "Lean theorems for all JSON values, keys and accessors: each accessor returns exactly absent (missing/null/empty), wrong (other type/unparseable/out of range) or the faithful value; GetNumber returns n iff the double's exact value (computed from its bit pattern with integer arithmetic) is the natural number n < 2^64. Tied to object.go/mime.go by differential correspondence on values decoded by the real encoding/json; number exactness is also checked on every implementation output.",
        "design_ref": "DESIGN.md §5 C17",
        "note": "Trusted: Lean kernel; correspondence check (testing); encoding/json, time.Parse, url.Parse as parameters/oracle tables.",
        "technique": "Lean 4 proof (case analysis over a JSON datatype, bit-exact IEEE-754 model) + differential correspondence",
    },
    "C18": {
        "text": "Refinement theorems in Lean: every history op sequence keeps the invariant, never panics and denotes what a zipper computes; every feed operation preserves the representation of a two-sided sequence, lookups/containment/parent-child agree with positions, append/prepend never move items, moves stay in bounds. Tied to history.go/feed.go by differential correspondence after every step, exhaustive up to a length bound.",
        "design_ref": "DESIGN.md §5 C18",
        "note": "Trusted: Lean kernel; correspondence check (testing; exhaustive to length 7 quick / 9 thorough); slice aliasing and Go map semantics as modelled.",
        "technique": "Lean 4 proof (refinement to zipper / two-sided sequence by induction over operations) + differential correspondence",
    },
    "C16": {
        "text": "Lean theorems for all prefix/centred/suffix texts and all heights >= 1: CenterVertically returns exactly h lines, centred as specified; ReplaceLastLine keeps the height for texts of >= 2 lines; SetLength is newline-free. Tied to ansi.go by differential correspondence; the height predicate is evaluated on every implementation output.",
        "design_ref": "DESIGN.md §5 C16",
        "note": "Trusted: Lean kernel; correspondence check (testing); strings.Split/Join/Count/Repeat/LastIndex as modelled on character lists.",
        "technique": "Lean 4 proof (list lemmas on split/join) + differential correspondence",
    },
}

NOT_APPLICABLE = {p: "check not built yet in this round (planned, see DESIGN.md §7)" for p in
                  ["C%02d" % i for i in range(1, 21)]}
